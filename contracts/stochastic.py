"""Client lemmas for C18 (seeded stochastic models) and the RNG clauses of C10."""
import z3

from lvc import sym as S
from lvc import arrops as A
from lvc import nplib as L
from lvc.spec import ints, shape2, array
from lvc.values import Arr, PyList
from lvc.interp import Raised
from lvc.prove import oblige_equal


def fn(ctx, name):
    return ctx.world.repo.function(name)


def run(ctx, name, *args, **kw):
    return ctx.world.interp.call_function(ctx, fn(ctx, name), list(args), kw)


def rng_events(ctx, start=0):
    return [d for (t, d) in ctx.events[start:] if t == 'global-rng' or (t == 'rng' and d == 'unseeded generator')]


def seeded(name, mk_args, tag, support=None):
    def lemma(ctx):
        """Same arguments and seed -> the same draw; only default_rng(seed) is used (the global NumPy
        random state is neither read nor advanced), for EVERY integer seed including 0."""
        seed = ctx.fresh_int('seed')
        args, kw = mk_args(ctx)
        n0 = len(ctx.events)
        from lvc.interp import PathEnd
        try:
            a = run(ctx, name, *args, seed=seed, **kw)
            b = run(ctx, name, *args, seed=seed, **kw)
        except Raised:
            raise PathEnd('refused input (covered by the refusal lemma)')
        short = name.replace('lentil.', '')
        ctx.oblige('C18::%s.no_global_rng[%s]' % (short, tag), len(rng_events(ctx, n0)) == 0, info={'events': rng_events(ctx, n0)})
        oblige_equal(ctx, 'C18::%s.deterministic[%s]' % (short, tag), a, b)
        if support is not None:
            support(ctx, a, args, kw, seed, short, tag)
    return ('C18::%s[%s]' % (name.replace('lentil.', ''), tag), lemma)


def _img(ctx, dtype='float'):
    R, C = shape2(ctx, 'img')
    return array(ctx, 'img', (R, C), dtype)


def shot_poisson_support(ctx, out, args, kw, seed, short, tag):
    img = args[0]
    R, C = img.shape
    i, j = ints(ctx, 'i', 'j')
    v = out.at((i, j))
    ctx.oblige('C18::%s.poisson_nonneg_integer[%s]' % (short, tag),
               z3.Implies(z3.And(i >= 0, i < R, j >= 0, j < C), z3.And(S.z(S.ge(v, 0)), z3.BoolVal(S.is_int(S.num(v))))))
    ctx.oblige('C18::%s.shape[%s]' % (short, tag), z3.And(S.z(S.eq(out.shape[0], R)), S.z(S.eq(out.shape[1], C))))


def shot_noise_rejects_negative(ctx):
    """A frame with a negative count is refused with ValueError('Counts must be positive')."""
    seed = ctx.fresh_int('seed')
    img = _img(ctx)
    try:
        run(ctx, 'lentil.detector.shot_noise', img, seed=seed)
        R, C = img.shape
        q = [z3.Int(ctx._name('nq%d' % k)) for k in range(2)]
        neg = z3.Exists(q, z3.And(q[0] >= 0, q[0] < R, q[1] >= 0, q[1] < C, S.z(S.lt(img.at(tuple(q)), 0))))
        ctx.oblige('C18::detector.shot_noise.accepts_only_nonnegative', z3.Not(neg))
    except Raised as r:
        ctx.oblige('C18::detector.shot_noise.refusal_is_ValueError', r.exc == 'ValueError')


def read_noise_support(ctx, out, args, kw, seed, short, tag):
    img, electrons = args
    R, C = img.shape
    i, j = ints(ctx, 'i', 'j')
    want = S.add(img.at((i, j)), L.RNG_REAL(S.z(seed), z3.IntVal(0), i, j, z3.RealVal(0), S.zreal(electrons)))
    ctx.oblige('C18::%s.input_plus_noise[%s]' % (short, tag),
               z3.Implies(z3.And(i >= 0, i < R, j >= 0, j < C), S.z(S.eq(out.at((i, j)), want))))


def dark_no_fpn(ctx):
    """Without pattern noise a dark frame is floor(rate) on the requested shape (square or not)."""
    rate = ctx.fresh_real('rate')
    R, C = shape2(ctx, 'shape')
    seed = ctx.fresh_int('seed')
    out = run(ctx, 'lentil.detector.dark_current', rate, (R, C), 0, seed)
    i, j = ints(ctx, 'i', 'j')
    ctx.oblige('C18::detector.dark_current.floor_rate', z3.Implies(z3.And(i >= 0, i < R, j >= 0, j < C),
                                                                    S.z(S.eq(out.at((i, j)), S.floor_(rate)))))
    ctx.oblige('C18::detector.dark_current.shape', z3.And(S.z(S.eq(out.shape[0], R)), S.z(S.eq(out.shape[1], C))))


def power_spectrum_lemma(ctx):
    """wfe.power_spectrum on the real code, any mask shape (fft2 / ifft2 abstract): the only randomness is the
    first normal(size=[n, m]) draw of default_rng(seed); the returned map is the mask times the filtered
    noise, scaled by ONE factor rms * sqrt(N / sum masked^2) with N the number of non-zero masked samples -
    hence zero outside the mask and sum(result^2) = rms^2 * N: exactly the requested RMS over the N samples."""
    from lvc import prove
    n, m = shape2(ctx, 'mask')
    mask = array(ctx, 'mask', (n, m), 'float')
    seed = ctx.fresh_int('seed')
    rms, hp, ex, ps = [ctx.fresh_real(k) for k in ('rms', 'half_power_freq', 'exp', 'pixelscale')]
    ctx.assume(z3.And(rms > 0, hp > 0, ex > 0, ps > 0))
    n0 = len(ctx.events)
    res = run(ctx, 'lentil.wfe.power_spectrum', mask, ps, rms, hp, ex, seed=seed)
    ctx.oblige('C18::wfe.power_spectrum.no_global_rng', len(rng_events(ctx, n0)) == 0, info={'events': rng_events(ctx, n0)})
    ctx.oblige('C18::wfe.power_spectrum.shape_is_the_mask_shape', z3.And(S.z(S.eq(res.shape[0], n)), S.z(S.eq(res.shape[1], m))))
    calls = ctx.__dict__.get('ghost_fft_calls', [])
    ok = len(calls) == 2 and calls[0]['fn'] == 'fft2' and calls[1]['fn'] == 'ifft2'
    ctx.oblige('C18::wfe.power_spectrum.one_forward_one_inverse_transform', ok, 'structure', info={'calls': [c['fn'] for c in calls]})
    if not ok:
        return
    i, j = ints(ctx, 'i', 'j')
    inr = [i >= 0, i < S.z(n), j >= 0, j < S.z(m)]
    noise = calls[0]['input']
    ctx.oblige('C18::wfe.power_spectrum.noise_shape', z3.And(S.z(S.eq(noise.shape[0], n)), S.z(S.eq(noise.shape[1], m))))
    want_noise = L.RNG_REAL(S.z(seed), z3.IntVal(0), i, j, z3.RealVal(0), z3.RealVal(1))
    prove.with_hyp(ctx, inr, lambda: ctx.oblige('C18::wfe.power_spectrum.noise_is_first_normal_draw_of_the_seeded_generator',
                                                S.eq(noise.at((i, j)), want_noise), 'structure'))
    # the filter multiplies the transform of the noise sample by sample (whatever H is, it is not random)
    G = calls[1]['output']
    scale = L.sqrt_scalar(ctx, S.mul(m, n))

    def masked(a, b):
        return S.mul(S.mul(S.cx(G.at((a, b))).re, scale), mask.at((a, b)))
    power = S.sigma(0, n, lambda a: S.sigma(0, m, lambda b: S.mul(masked(a, b), masked(a, b))))
    count = S.sigma(0, n, lambda a: S.sigma(0, m, lambda b: S.ite(S.ne(masked(a, b), 0), 1, 0)))
    v_pow = prove.find_named_sum(ctx, power)
    ctx.oblige('C18::wfe.power_spectrum.normalises_by_the_power_of_the_masked_map', v_pow is not None, 'structure')
    if v_pow is None:
        return
    v_q = prove.find_named_sum(ctx, S.truediv(count, v_pow))
    ctx.oblige('C18::wfe.power_spectrum.normalises_to_the_count_of_nonzero_samples', v_q is not None, 'structure')
    if v_q is None:
        return
    kappa = L.sqrt_scalar(ctx, v_q)
    prove.with_hyp(ctx, inr, lambda: ctx.oblige('C18::wfe.power_spectrum.mask_times_filtered_noise_times_one_factor',
                                                S.eq(res.at((i, j)), S.mul(S.mul(masked(i, j), kappa), rms)), 'structure'))
    prove.with_hyp(ctx, inr + [S.z(S.eq(mask.at((i, j)), 0))],
                   lambda: ctx.oblige('C18::wfe.power_spectrum.zero_outside_the_mask', S.eq(res.at((i, j)), 0)))
    # exact RMS: with P = sum masked^2 > 0 and q = N / P:  sum res^2 = kappa^2 rms^2 P = rms^2 N
    res_power = S.sigma(0, n, lambda a: S.sigma(0, m, lambda b: S.mul(res.at((a, b)), res.at((a, b)))))
    hyp = [v_pow > 0, v_q >= 0]
    prove.with_hyp(ctx, hyp, lambda: oblige_equal(ctx, 'C18::wfe.power_spectrum.power_is_factor2_times_masked_power',
                                                  res_power, S.mul(power, S.mul(S.mul(kappa, kappa), S.mul(rms, rms)))))
    prove.with_hyp(ctx, hyp, lambda: ctx.oblige('C18::wfe.power_spectrum.factor2_is_q', S.eq(S.mul(kappa, kappa), v_q)))
    # (q * P = N holds by the definitions of the two named sums identified above)


def lemmas():
    out = [
        seeded('lentil.detector.shot_noise', lambda ctx: ([_img(ctx)], {'method': 'poisson'}), 'poisson', shot_poisson_support),
        seeded('lentil.detector.read_noise', lambda ctx: ([_img(ctx), ctx.fresh_real('electrons')], {}), 'float frame', read_noise_support),
        seeded('lentil.detector.read_noise', lambda ctx: ([_img(ctx, 'int'), ctx.fresh_real('electrons')], {}), 'integer frame', read_noise_support),
        seeded('lentil.detector.dark_current', lambda ctx: ([ctx.fresh_real('rate'), shape2(ctx, 'shape')], {'fpn_factor': S.frac(0.25)}), 'fpn'),
        seeded('lentil.detector.rule07_dark_current',
               lambda ctx: ([S.frac(80.0), S.frac(5e-6), S.frac(18e-6), shape2(ctx, 'shape')], {'fpn_factor': S.frac(0.25)}), 'fpn, long cutoff'),
        ('C18::detector.shot_noise.rejects_negative', shot_noise_rejects_negative),
        ('C18::detector.dark_current.no_fpn', dark_no_fpn),
        ('C18::wfe.power_spectrum', power_spectrum_lemma),
    ]
    return out
