"""Client lemmas for C18 (seeded stochastic models) and the RNG clauses of C10."""
import z3

from lvc import sym as S
from lvc import arrops as A
from lvc import nplib as L
from lvc.spec import ints, shape2, array
from lvc.values import Arr, PyList
from lvc.interp import Raised
from lvc.prove import oblige_equal


def fn(ctx, name):
    return ctx.world.repo.function(name)


def run(ctx, name, *args, **kw):
    return ctx.world.interp.call_function(ctx, fn(ctx, name), list(args), kw)


def rng_events(ctx, start=0):
    return [d for (t, d) in ctx.events[start:] if t == 'global-rng' or (t == 'rng' and d == 'unseeded generator')]


def seeded(name, mk_args, tag, support=None):
    def lemma(ctx):
        """Same arguments and seed -> the same draw; only default_rng(seed) is used (the global NumPy
        random state is neither read nor advanced), for EVERY integer seed including 0."""
        seed = ctx.fresh_int('seed')
        args, kw = mk_args(ctx)
        n0 = len(ctx.events)
        from lvc.interp import PathEnd
        try:
            a = run(ctx, name, *args, seed=seed, **kw)
            b = run(ctx, name, *args, seed=seed, **kw)
        except Raised:
            raise PathEnd('refused input (covered by the refusal lemma)')
        short = name.replace('lentil.', '')
        ctx.oblige('C18::%s.no_global_rng[%s]' % (short, tag), len(rng_events(ctx, n0)) == 0, info={'events': rng_events(ctx, n0)})
        oblige_equal(ctx, 'C18::%s.deterministic[%s]' % (short, tag), a, b)
        if support is not None:
            support(ctx, a, args, kw, seed, short, tag)
    return ('C18::%s[%s]' % (name.replace('lentil.', ''), tag), lemma)


def _img(ctx, dtype='float'):
    R, C = shape2(ctx, 'img')
    return array(ctx, 'img', (R, C), dtype)


def shot_poisson_support(ctx, out, args, kw, seed, short, tag):
    img = args[0]
    R, C = img.shape
    i, j = ints(ctx, 'i', 'j')
    v = out.at((i, j))
    ctx.oblige('C18::%s.poisson_nonneg_integer[%s]' % (short, tag),
               z3.Implies(z3.And(i >= 0, i < R, j >= 0, j < C), z3.And(S.z(S.ge(v, 0)), z3.BoolVal(S.is_int(S.num(v))))))
    ctx.oblige('C18::%s.shape[%s]' % (short, tag), z3.And(S.z(S.eq(out.shape[0], R)), S.z(S.eq(out.shape[1], C))))


def shot_noise_rejects_negative(ctx):
    """A frame with a negative count is refused with ValueError('Counts must be positive')."""
    seed = ctx.fresh_int('seed')
    img = _img(ctx)
    try:
        run(ctx, 'lentil.detector.shot_noise', img, seed=seed)
        R, C = img.shape
        q = [z3.Int(ctx._name('nq%d' % k)) for k in range(2)]
        neg = z3.Exists(q, z3.And(q[0] >= 0, q[0] < R, q[1] >= 0, q[1] < C, S.z(S.lt(img.at(tuple(q)), 0))))
        ctx.oblige('C18::detector.shot_noise.accepts_only_nonnegative', z3.Not(neg))
    except Raised as r:
        ctx.oblige('C18::detector.shot_noise.refusal_is_ValueError', r.exc == 'ValueError')


def read_noise_support(ctx, out, args, kw, seed, short, tag):
    img, electrons = args
    R, C = img.shape
    i, j = ints(ctx, 'i', 'j')
    want = S.add(img.at((i, j)), L.RNG_REAL(S.z(seed), z3.IntVal(0), i, j, z3.RealVal(0), S.zreal(electrons)))
    ctx.oblige('C18::%s.input_plus_noise[%s]' % (short, tag),
               z3.Implies(z3.And(i >= 0, i < R, j >= 0, j < C), S.z(S.eq(out.at((i, j)), want))))


def dark_no_fpn(ctx):
    """Without pattern noise a dark frame is floor(rate) on the requested shape (square or not)."""
    rate = ctx.fresh_real('rate')
    R, C = shape2(ctx, 'shape')
    seed = ctx.fresh_int('seed')
    out = run(ctx, 'lentil.detector.dark_current', rate, (R, C), 0, seed)
    i, j = ints(ctx, 'i', 'j')
    ctx.oblige('C18::detector.dark_current.floor_rate', z3.Implies(z3.And(i >= 0, i < R, j >= 0, j < C),
                                                                    S.z(S.eq(out.at((i, j)), S.floor_(rate)))))
    ctx.oblige('C18::detector.dark_current.shape', z3.And(S.z(S.eq(out.shape[0], R)), S.z(S.eq(out.shape[1], C))))


def lemmas():
    out = [
        seeded('lentil.detector.shot_noise', lambda ctx: ([_img(ctx)], {'method': 'poisson'}), 'poisson', shot_poisson_support),
        seeded('lentil.detector.read_noise', lambda ctx: ([_img(ctx), ctx.fresh_real('electrons')], {}), 'float frame', read_noise_support),
        seeded('lentil.detector.read_noise', lambda ctx: ([_img(ctx, 'int'), ctx.fresh_real('electrons')], {}), 'integer frame', read_noise_support),
        seeded('lentil.detector.dark_current', lambda ctx: ([ctx.fresh_real('rate'), shape2(ctx, 'shape')], {'fpn_factor': S.frac(0.25)}), 'fpn'),
        seeded('lentil.detector.rule07_dark_current',
               lambda ctx: ([S.frac(80.0), S.frac(5e-6), S.frac(18e-6), shape2(ctx, 'shape')], {'fpn_factor': S.frac(0.25)}), 'fpn, long cutoff'),
        ('C18::detector.shot_noise.rejects_negative', shot_noise_rejects_negative),
        ('C18::detector.dark_current.no_fpn', dark_no_fpn),
    ]
    return out
