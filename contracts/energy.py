"""Client lemmas for C05 (energy conservation)."""
import z3

from lvc import sym as S
from lvc import nplib as L
from lvc.spec import contract, ints, shape2, array
from lvc.values import Arr
from contracts import fourier as FT


def full_period_coefficient(ctx):
    """With 1/alpha_k = N_k an integer >= n_k and output shape (N_r, N_c), the scalar factor kappa the *code*
    puts in front of the sum satisfies kappa^2 N_r N_c = 1; with Parseval for the zero-padded input over one
    full period (math lemma L3, assumed) the total output intensity equals the input power."""
    m, n = shape2(ctx, 'f')
    Nr, Nc = ints(ctx, 'N_r', 'N_c')
    ctx.assume(z3.And(Nr >= m, Nc >= n))
    f = array(ctx, 'f', (m, n), 'complex')
    alpha = (S.truediv(1, Nr), S.truediv(1, Nc))
    world = ctx.world
    ctx.no_model = {'lentil.fourier.dft2'}
    F = world.interp.call_function(ctx, world.repo.function('lentil.fourier.dft2'), [f, alpha],
                                   {'shape': (Nr, Nc), 'unitary': True})
    u, v = ints(ctx, 'u', 'v')
    kappa = FT._coef_of(F.at((u, v)))
    ctx.assumptions.add('math lemma L3: Parseval for the centred DFT of the zero-padded input over one full period')
    ctx.oblige('C05::full_period_coefficient', S.eq(S.mul(S.mul(S.mul(kappa, kappa), Nr), Nc), 1))
    ctx.oblige('C05::output_shape_is_the_period', z3.And(S.z(S.eq(F.shape[0], Nr)), S.z(S.eq(F.shape[1], Nc))))


def fft2_is_orthonormal(ctx):
    """_fft2 calls numpy's fft2 exactly once, with norm='ortho' (unitary), on an index rotation of its input,
    and returns an index rotation of the result (so that sum |.|^2 is preserved)."""
    n, m = shape2(ctx, 'x')
    x = array(ctx, 'x', (n, m), 'complex')
    world = ctx.world
    ctx.no_model = {'lentil.propagate._fft2'}
    y = world.interp.call_function(ctx, world.repo.function('lentil.propagate._fft2'), [x], {})
    calls = ctx.__dict__.get('ghost_fft_calls', [])
    ctx.oblige('C05::_fft2.calls_fft2_once', len(calls) == 1 and calls[0]['fn'] == 'fft2')
    if len(calls) == 1:
        ctx.oblige('C05::_fft2.norm_is_ortho', calls[0]['norm'] == 'ortho', info={'norm': str(calls[0]['norm'])})
        ctx.oblige('C05::_fft2.shape_kept', z3.And(S.z(S.eq(y.shape[0], n)), S.z(S.eq(y.shape[1], m)),
                                                   S.z(S.eq(calls[0]['input'].shape[0], n)), S.z(S.eq(calls[0]['input'].shape[1], m))))
        # the input handed to fft2 is a permutation of x: element (i, j) is x[(i + n//2) % n, (j + m//2) % m]
        i, j = ints(ctx, 'i', 'j')
        ctx.assume(z3.And(i >= 0, i < n, j >= 0, j < m))
        got = calls[0]['input'].at((i, j))
        want = x.at((S.mod(S.add(i, S.floordiv(n, 2)), n), S.mod(S.add(j, S.floordiv(m, 2)), m)))
        ctx.oblige('C05::_fft2.input_is_ifftshift_of_x', S.and_(S.eq(S.cx(got).re, S.cx(want).re), S.eq(S.cx(got).im, S.cx(want).im)))


def normalize_power_algebra(ctx):
    """c = sqrt(p / S) with S = sum |a|^2 > 0 and p >= 0 gives sum |a c|^2 = c^2 S = p."""
    p, Ssum = ctx.fresh_real('p'), ctx.fresh_real('S')
    ctx.assume(z3.And(p >= 0, Ssum > 0))
    c = L.sqrt_scalar(ctx, S.truediv(p, Ssum))
    ctx.oblige('C05::normalize_power.algebra', S.eq(S.mul(S.mul(c, c), Ssum), p))


def intensity_nonnegative(ctx):
    """|z|^2 accumulated with insert(intensity=True): every contribution re^2 + im^2 is non-negative."""
    re, im, w = ctx.fresh_real('re'), ctx.fresh_real('im'), ctx.fresh_real('weight')
    ctx.assume(w >= 0)
    ctx.oblige('C05::intensity_contribution_nonnegative', S.ge(S.mul(S.cabs2(S.Cx(re, im)), w), 0))


LEMMAS = [('C05::full_period_coefficient', full_period_coefficient), ('C05::_fft2.ortho', fft2_is_orthonormal),
          ('C05::normalize_power.algebra', normalize_power_algebra), ('C05::intensity_nonnegative', intensity_nonnegative)]


# ---------------------------------------------------------------------------------------
# util.normalize_power on the real code: result = array * kappa with kappa >= 0 and
# kappa^2 * sum |array|^2 = power, hence sum |result|^2 = power (the C05 "power p" clause)

def _np_contract(dtype):
    c = contract('lentil.util.normalize_power#%s' % dtype, level='P')
    c.qualname = 'lentil.util.normalize_power'
    c.tag = dtype

    def params(ctx):
        a = array(ctx, 'array', shape2(ctx, 'a'), dtype)
        p = ctx.fresh_real('power')
        ctx.assume(p > 0)
        return {'array': a, 'power': p}
    c.params = params
    c.modifies = set()

    @c.post('scaled_to_power_p')
    def _(ctx, env0, env, out):
        from lvc import prove
        a, p, res = env0['array'], env0['power'], out.value
        n, m = a.shape
        total = S.sigma(0, n, lambda i: S.sigma(0, m, lambda j: S.cabs2(a.at((i, j)))))
        name = 'util.normalize_power::%%s[%s]' % dtype
        if getattr(ctx, 'replaying', False):
            v = prove.expand_sums(ctx, total)
            if v is None:
                return None
        else:
            # the code divides by exactly one finite sum, and that sum is the total power sum |a|^2
            named = prove.named_sums(ctx)
            ctx.oblige(name % 'divides_by_one_sum', len(named) == 1, 'structure', info={'sums': len(named)})
            if len(named) != 1:
                return None
            v, s = named[0]
            prove.oblige_equal(ctx, name % 'divisor_is_total_power', s, total)
        # precondition of the statement: the input has non-zero power (numpy gives nan/inf otherwise)
        hyp = [S.z(S.gt(v, 0))]
        kappa = L.sqrt_scalar(ctx, S.truediv(p, v))
        r, cc = ints(ctx, 'r', 'c')
        inr = z3.And(r >= 0, r < S.z(n), cc >= 0, cc < S.z(m))

        def clauses():
            got, want = S.cx(res.at((r, cc))), S.cx(S.mul(a.at((r, cc)), kappa))
            ctx.oblige(name % 'each_sample_scaled_by_kappa',
                       z3.Implies(inr, z3.And(S.z(S.eq(got.re, want.re)), S.z(S.eq(got.im, want.im)))))
            ctx.oblige(name % 'kappa_squared_times_total_is_p',
                       z3.And(S.z(S.ge(kappa, 0)), S.z(S.eq(S.mul(S.mul(kappa, kappa), v), p))))
            # sum |result|^2 = kappa^2 * sum |a|^2  (Sigma-extensionality), which is p by the clause above
            out_power = S.sigma(0, n, lambda i: S.sigma(0, m, lambda j: S.cabs2(res.at((i, j)))))
            if getattr(ctx, 'replaying', False):
                prove.oblige_equal(ctx, name % 'result_has_power_p', out_power, p)
            else:
                prove.oblige_equal(ctx, name % 'result_power_is_kappa2_total', out_power, S.mul(total, S.mul(kappa, kappa)))
        prove.with_hyp(ctx, hyp, clauses)
        return z3.And(S.z(S.eq(res.shape[0], n)), S.z(S.eq(res.shape[1], m)))
    return c


for _dt in ('complex', 'float'):
    _np_contract(_dt)
NORMALIZE = ['lentil.util.normalize_power#complex', 'lentil.util.normalize_power#float']
