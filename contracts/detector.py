"""Contracts for lentil/detector.py (C16; C18/C19 pieces)."""
import itertools

import z3

from lvc import sym as S
from lvc import arrops as A
from lvc import nplib as L
from lvc.spec import contract, ints, shape2, array, elems
from lvc.values import Arr, Obj, PyList
from lvc.interp import Raised
from lvc.prove import oblige_equal, sum_zero


# ---------------------------------------------------------------------------------------
def _cc_contract(tag, qe_kind, cube):
    c = contract('lentil.detector.collect_charge#%s' % tag, level='I')
    c.qualname = 'lentil.detector.collect_charge'
    c.tag = tag

    def params(ctx):
        R, C = shape2(ctx, 'img')
        Lw = ctx.fresh_int('nwave')
        ctx.assume(Lw >= 1)
        if cube:
            img = array(ctx, 'img', (Lw, R, C), 'float')
        else:
            ctx.assume(Lw == 1)
            img = array(ctx, 'img', (R, C), 'float')
        wave = array(ctx, 'wave', (Lw,), 'float')
        qe = ctx.fresh_real('qe') if qe_kind == 'scalar' else array(ctx, 'qe', (Lw,), 'float')
        return {'img': img, 'wave': wave, 'qe': qe, 'waveunit': 'nm'}
    c.params = params

    @c.post('sum_over_wavelength_of_photons_times_qe')
    def _(ctx, env0, env, out):
        img, qe = env0['img'], env0['qe']
        R, C = img.shape[-2], img.shape[-1]
        Lw = env0['wave'].shape[0]
        r, cc = ints(ctx, 'r', 'c')
        q = (lambda i: qe) if qe_kind == 'scalar' else (lambda i: qe.at((i,)))
        pix = (lambda i: img.at((i, r, cc))) if cube else (lambda i: img.at((r, cc)))
        want = S.sigma(0, Lw, lambda i: S.mul(pix(i), q(i)))
        from lvc.prove import with_hyp
        ctx.oblige('detector.collect_charge::shape[%s]' % tag, z3.And(S.z(S.eq(out.value.shape[0], R)), S.z(S.eq(out.value.shape[1], C))))
        with_hyp(ctx, [r >= 0, r < R, cc >= 0, cc < C],
                 lambda: oblige_equal(ctx, 'detector.collect_charge::sum_over_wavelength[%s]' % tag, out.value.at((r, cc)), want))
        return None
    return c


_cc_contract('cube-scalar-qe', 'scalar', True)
_cc_contract('cube-vector-qe', 'vector', True)
_cc_contract('frame-scalar-qe', 'scalar', False)


def _cc_spectrum_contract(unit, qe_unit):
    """QE given as a Spectrum (Spectrum.sample abstract: a pointwise interpolant of the spectrum as it is, the
    requested unit recorded): the spectrum is sampled once, at the caller's wavelengths, in the CALLER's
    wavelength unit, and the charge is the sum over slices of photons x that sample."""
    from contracts import radiometry as Rm
    tag = 'cube-spectrum-qe[%s,qe in %s]' % (unit, qe_unit)
    c = contract('lentil.detector.collect_charge#%s' % tag, level='I')
    c.qualname = 'lentil.detector.collect_charge'
    c.tag = tag

    def params(ctx):
        R, C = shape2(ctx, 'img')
        Lw = ctx.fresh_int('nwave')
        ctx.assume(Lw >= 1)
        img = array(ctx, 'img', (Lw, R, C), 'float')
        wave = array(ctx, 'wave', (Lw,), 'float')
        qe = Rm.mk_spectrum(ctx, 'qe', waveunit=qe_unit)
        return {'img': img, 'wave': wave, 'qe': qe, 'waveunit': unit}
    c.params = params
    c.modifies = {'qe'}       # Spectrum.sample converts the spectrum to the requested unit (its documented behaviour)

    @c.post('spectrum_sampled_in_the_callers_unit')
    def _(ctx, env0, env, out):
        if getattr(ctx, 'replaying', False):
            return None
        from lvc.prove import with_hyp
        img = env0['img']
        Lw, R, C = img.shape
        calls = ctx.__dict__.get('ghost_sample_calls', [])
        name = 'detector.collect_charge::%%s[%s]' % tag
        ok = len(calls) == 1 and calls[0]['self'] is env['qe']
        ctx.oblige(name % 'qe_spectrum_sampled_once', ok, 'structure', info={'calls': len(calls)})
        if not ok:
            return None
        ctx.oblige(name % 'sampled_in_the_callers_wavelength_unit', calls[0]['waveunit'] == unit, 'structure',
                   info={'requested': calls[0]['waveunit'], 'caller': unit})
        r, cc = ints(ctx, 'r', 'c')
        q = lambda i: Rm.interp_value(ctx, env['qe'], calls[0]['method'], calls[0]['fill'], env0['wave'].at((i,)))
        want = S.sigma(0, Lw, lambda i: S.mul(img.at((i, r, cc)), q(i)))
        with_hyp(ctx, [r >= 0, r < R, cc >= 0, cc < C],
                 lambda: oblige_equal(ctx, name % 'sum_over_wavelength_of_photons_times_sampled_qe', out.value.at((r, cc)), want))
        return None
    return c


CC_SPECTRUM = []
for _u, _q in (('nm', 'nm'), ('um', 'nm'), ('m', 'um'), ('angstrom', 'nm')):
    _cc_spectrum_contract(_u, _q)
    CC_SPECTRUM.append('lentil.detector.collect_charge#cube-spectrum-qe[%s,qe in %s]' % (_u, _q))


# ---------------------------------------------------------------------------------------
PATTERNS = ['RGGB', 'GRBG', 'BGGR', 'RGBGBRBRG', 'R']


def _bayer_contract(pattern, os_, flatten):
    tag = '%s,os=%d,%s' % (pattern, os_, 'flat' if flatten else 'channels')
    c = contract('lentil.detector.collect_charge_bayer#%s' % tag, level='I')
    c.qualname = 'lentil.detector.collect_charge_bayer'
    c.tag = tag
    p = int(round(len(pattern) ** 0.5))

    def params(ctx):
        a, b = ints(ctx, 'tiles_r', 'tiles_c')
        ctx.assume(z3.And(a >= 1, b >= 1))
        R, C = a * (p * os_), b * (p * os_)
        Lw = ctx.fresh_int('nwave')
        ctx.assume(Lw >= 1)
        img = array(ctx, 'img', (Lw, R, C), 'float')
        wave = array(ctx, 'wave', (Lw,), 'float')
        q = {k: array(ctx, 'qe_' + k, (Lw,), 'float') for k in ('red', 'green', 'blue')}
        return {'img': img, 'wave': wave, 'qe_red': q['red'], 'qe_green': q['green'], 'qe_blue': q['blue'],
                'bayer_pattern': pattern, 'oversample': os_, 'waveunit': 'nm', 'flatten': flatten}
    c.params = params

    @c.post('every_subpixel_uses_its_native_pixels_colour')
    def _(ctx, env0, env, out):
        img = env0['img']
        Lw, R, C = img.shape
        r, cc = ints(ctx, 'r', 'c')
        from lvc.prove import with_hyp
        from lvc.values import select
        rows = [[pattern[i * p + j] for j in range(p)] for i in range(p)]
        qs = {'R': env0['qe_red'], 'G': env0['qe_green'], 'B': env0['qe_blue']}
        pi_, pj_ = S.mod(S.floordiv(r, os_), p), S.mod(S.floordiv(cc, os_), p)

        def weight(col):
            # 1 where the tiled pattern assigns colour `col` to the native pixel of sub-pixel (r, c)
            w = 0
            for i in range(p):
                for j in range(p):
                    if rows[i][j] == col:
                        w = S.add(w, S.ite(S.and_(S.eq(pi_, i), S.eq(pj_, j)), 1, 0))
            return w

        def chan(col):
            return S.mul(S.sigma(0, Lw, lambda i: S.mul(img.at((i, r, cc)), qs[col].at((i,)))), weight(col))
        hyp = [r >= 0, r < S.z(R), cc >= 0, cc < S.z(C)]
        if flatten:
            want = S.add(S.add(chan('R'), chan('G')), chan('B'))
            ctx.oblige('detector.collect_charge_bayer::shape[%s]' % tag,
                       z3.And(S.z(S.eq(out.value.shape[0], R)), S.z(S.eq(out.value.shape[1], C))))
            with_hyp(ctx, hyp, lambda: oblige_equal(ctx, 'detector.collect_charge_bayer::mosaic[%s]' % tag, out.value.at((r, cc)), want))
        else:
            for k, col in enumerate('RGB'):
                with_hyp(ctx, hyp, lambda k=k, col=col: oblige_equal(
                    ctx, 'detector.collect_charge_bayer::mosaic.%s[%s]' % (col, tag), out.value[k].at((r, cc)), chan(col)))
        return None
    return c


BAYER = []
for _pat, _os, _fl in [('RGGB', 1, True), ('RGGB', 2, True), ('RGGB', 3, True), ('RGGB', 4, False), ('GRBG', 3, True),
                       ('BGGR', 5, True), ('RGBGBRBRG', 2, True), ('RGBGBRBRG', 3, False), ('R', 3, True)]:
    BAYER.append(_bayer_contract(_pat, _os, _fl).qualname + '#%s,os=%d,%s' % (_pat, _os, 'flat' if _fl else 'channels'))


def bayer_string_lemma(ctx):
    """format_bayer_string: row-major square array; ValueError for non-square lengths and foreign letters."""
    func = ctx.world.repo.function('lentil.detector.format_bayer_string')
    for s, ok in (('RGGB', True), ('rggb', True), ('RGBGBRBRG', True), ('RGB', False), ('RGGX', False), ('GRBG', True)):
        try:
            a = ctx.world.interp.call_function(ctx, func, [s], {})
            good = ok and a.ndim == 2
            if good:
                p = a.shape[0]
                for i in range(p):
                    for j in range(p):
                        good = good and a.at((i, j)) == s.upper()[i * p + j]
            ctx.oblige('C16::format_bayer_string[%s] row-major' % s, good)
        except Raised as r:
            ctx.oblige('C16::format_bayer_string[%s] refusal' % s, (not ok) and r.exc == 'ValueError')


# ---------------------------------------------------------------------------------------
# adc

def _adc_contract(tag, gain_kind, order, sat, warn):
    c = contract('lentil.detector.adc#%s' % tag, level='I')
    c.qualname = 'lentil.detector.adc'
    c.tag = tag

    def params(ctx):
        R, C = shape2(ctx, 'img')
        img = array(ctx, 'img', (R, C), 'float')
        if gain_kind == 'scalar':
            gain = ctx.fresh_real('gain')
        elif gain_kind == 'poly':
            gain = array(ctx, 'gain', (order,), 'float')
        elif gain_kind == 'pixel':
            gain = array(ctx, 'gain', (R, C), 'float')
        else:
            gain = array(ctx, 'gain', (order, R, C), 'float')
        cap = None
        if sat:
            cap = ctx.fresh_real('capacity')
            ctx.assume(cap > 0)
        return {'img': img, 'gain': gain, 'saturation_capacity': cap, 'warn_saturate': warn, 'dtype': None}
    c.params = params

    @c.post('floor_of_gain_polynomial_at_clipped_count')
    def _(ctx, env0, env, out):
        img, gain, cap = env0['img'], env0['gain'], env0['saturation_capacity']
        R, C = img.shape
        r, cc = ints(ctx, 'r', 'c')
        e = img.at((r, cc))
        if cap is not None:
            e = S.min_(e, cap)
        K = order if gain_kind in ('poly', 'cube') else 1
        acc = 0
        for d in range(K):
            if gain_kind == 'scalar':
                g = gain
            elif gain_kind == 'poly':
                g = gain.at((d,))
            elif gain_kind == 'pixel':
                g = gain.at((r, cc))
            else:
                g = gain.at((d, r, cc))
            acc = S.add(acc, S.mul(g, S.pow_(e, K - d)))
        want = S.max_(S.floor_(acc), 0)
        inr = z3.And(r >= 0, r < R, cc >= 0, cc < C)
        got = out.value.at((r, cc))
        ctx.oblige('detector.adc::never_negative[%s]' % tag, z3.Implies(inr, S.z(S.ge(got, 0))))
        # warning exactly when some pixel exceeds the capacity (and warnings were requested)
        warned = any(t == 'warning' for (t, _) in ctx.events)
        if cap is not None and warn:
            i, j = z3.Int(ctx._name('wi')), z3.Int(ctx._name('wj'))
            exceeds = z3.Exists([i, j], z3.And(i >= 0, i < R, j >= 0, j < C, S.z(S.gt(env0['img'].at((i, j)), cap))))
            ctx.oblige('detector.adc::warns_iff_a_pixel_exceeds_capacity[%s]' % tag, exceeds if warned else z3.Not(exceeds))
        else:
            ctx.oblige('detector.adc::no_warning_unless_requested[%s]' % tag, not warned)
        return z3.Implies(inr, S.z(S.eq(got, want)))
    return c


ADC = []
for _tag, _kind, _order, _sat, _warn in [('scalar', 'scalar', 1, False, False), ('scalar-sat-warn', 'scalar', 1, True, True),
                                          ('poly2-sat', 'poly', 2, True, False), ('poly3', 'poly', 3, False, False),
                                          ('pixel-sat', 'pixel', 1, True, True), ('cube2-sat', 'cube', 2, True, False),
                                          ('cube3', 'cube', 3, False, False)]:
    _adc_contract(_tag, _kind, _order, _sat, _warn)
    ADC.append('lentil.detector.adc#' + _tag)

LEMMAS = [('C16::format_bayer_string', bayer_string_lemma)]
