"""Contracts for lentil/zernike.py (C11, C12)."""
import math
from fractions import Fraction

import z3

from lvc import sym as S
from lvc import arrops as A
from lvc import nplib as L
from lvc.spec import contract, ints, shape2, array, elems, LoopSpec
from lvc.values import Arr, Obj, PyList, Seq
from lvc.interp import Raised
from lvc.prove import oblige_equal


# ---------------------------------------------------------------------------------------
# Noll index -> (m, n)

def noll_row(j):
    """n with n(n+1)/2 < j <= (n+1)(n+2)/2 as constraints on a fresh n."""
    n = z3.Int('noll_n')
    return n, z3.And(n >= 0, n * (n + 1) < 2 * j, 2 * j <= (n + 1) * (n + 2))


def noll_abs_m(n, p):
    """|m| at 0-based position p of row n: 0,2,2,4,4,.. (n even) or 1,1,3,3,.. (n odd)."""
    return z3.If(n % 2 == 0, 2 * ((p + 1) / 2), 2 * (p / 2) + 1)


c = contract('lentil.zernike.zernike_index')


def _zi_params(ctx):
    j = ctx.fresh_int('j')
    return {'j': j}


c.params = _zi_params
c.raises['ValueError'] = lambda ctx, env: env['j'] < 1


def _row_state(ctx, env, k):
    n = env['n']
    odd = S.eq(S.mod(n, 2), 1)
    base = S.ite(odd, 2, 1)
    # row_m after k iterations: [1,1,3,3,...] (n odd) or [0,2,2,4,4,...] (n even), length base + 2k
    def elem(i):
        return S.ite(odd, S.add(S.mul(2, S.floordiv(i, 2)), 1), S.mul(2, S.floordiv(S.add(i, 1), 2)))
    return {'row_m': Seq(S.add(base, S.mul(2, k)), elem)}


c.loops[0] = LoopSpec(['row_m'], state=_row_state)


@c.post('noll_ordering')
def _(ctx, env0, env, out):
    j = env0['j']
    m, n = out.value
    m, n = S.z(m), S.z(n)
    p = j - n * (n + 1) / 2 - 1
    absm = z3.If(m >= 0, m, -m)
    return z3.And(n >= 0, n * (n + 1) < 2 * j, 2 * j <= (n + 1) * (n + 2),      # the row of j
                  absm <= n, (n - absm) % 2 == 0,                                 # admissible order
                  absm == noll_abs_m(n, p),                                       # position in the row
                  z3.Implies(m > 0, j % 2 == 0), z3.Implies(m < 0, j % 2 == 1))   # even j cosine, odd j sine


def zernike_index_model(ctx, env):
    """Closed form of Noll's ordering (used at call sites with concrete j)."""
    j = A.unwrap0(env['j'])
    if S.is_z3(j):
        raise S.Unsupported('zernike_index model: symbolic j')
    if j < 1:
        raise Raised('ValueError')
    n = 0
    while (n + 1) * (n + 2) // 2 < j:
        n += 1
    p = j - n * (n + 1) // 2 - 1
    am = 2 * ((p + 1) // 2) if n % 2 == 0 else 2 * (p // 2) + 1
    m = am if j % 2 == 0 else -am
    return (m, n)


c.call_model = zernike_index_model


def index_injective(ctx):
    """Two Noll indices with the same (m, n) are equal (the map is one-to-one): from the closed form."""
    j1, j2 = ints(ctx, 'j1', 'j2')
    n, m = ints(ctx, 'n', 'm')
    f = []
    for j in (j1, j2):
        p = j - n * (n + 1) / 2 - 1
        absm = z3.If(m >= 0, m, -m)
        f.append(z3.And(j >= 1, n >= 0, n * (n + 1) < 2 * j, 2 * j <= (n + 1) * (n + 2), absm == noll_abs_m(n, p),
                        z3.Implies(m > 0, j % 2 == 0), z3.Implies(m < 0, j % 2 == 1),
                        z3.Implies(m == 0, z3.And(p == 0, n % 2 == 0))))
    ctx.oblige('C11::noll_index_is_injective', z3.Implies(z3.And(*f), j1 == j2))


# ---------------------------------------------------------------------------------------
# radial polynomial and modes, for every (n, m) up to NMAX (all rho, theta symbolic)

NMAX = 8


def radial_textbook(n, m, rho):
    """R_n^m(rho) = sum_k (-1)^k (n-k)! / (k! ((n+m)/2-k)! ((n-m)/2-k)!) rho^(n-2k)   (exact rationals)"""
    m = abs(m)
    out = 0
    for k in range((n - m) // 2 + 1):
        coef = Fraction((-1) ** k * math.factorial(n - k),
                        math.factorial(k) * math.factorial((n + m) // 2 - k) * math.factorial((n - m) // 2 - k))
        out = S.add(out, S.mul(coef, S.pow_(rho, n - 2 * k)))
    return out


def radial_lemma(n, m):
    def lemma(ctx):
        h, w = shape2(ctx, 'rho')
        rho = array(ctx, 'rho', (h, w), 'float')
        func = ctx.world.repo.function('lentil.zernike.R')
        got = ctx.world.interp.call_function(ctx, func, [m, n, rho], {})
        i, jx = ints(ctx, 'i', 'jx')
        ctx.assume(z3.And(i >= 0, i < h, jx >= 0, jx < w))
        r = rho.at((i, jx))
        want = radial_textbook(n, m, r)
        g = got.at((i, jx)) if isinstance(got, Arr) else got
        ctx.oblige('C11::R[n=%d,m=%d] textbook polynomial' % (n, m), S.eq(g, want))
        ctx.oblige('C11::R[n=%d,m=%d] is 1 at rho=1' % (n, m), S.eq(radial_textbook(n, m, 1), 1))
    return ('C11::R[n=%d,m=%d]' % (n, m), lemma)


def mode_lemma(j):
    def lemma(ctx):
        """zernike(mask, j, normalize, rho, theta) = N * R_n^|m|(rho) * az(theta) inside the mask, 0 outside;
        N = sqrt(n+1) (times sqrt 2 for m != 0) exactly when normalize; az = cos(|m| theta) for even j,
        -sin(|m| theta) for odd j (lentil's sine convention sin(m theta) with m < 0, the same sign for every odd j)."""
        m, n = zernike_index_model(ctx, {'j': j})
        h, w = shape2(ctx, 'mask')
        mask = array(ctx, 'mask', (h, w), 'bool')
        rho = array(ctx, 'rho', (h, w), 'float')
        theta = array(ctx, 'theta', (h, w), 'float')
        normalize = ctx.branch(ctx.fresh_bool('normalize'))
        func = ctx.world.repo.function('lentil.zernike.zernike')
        Z = ctx.world.interp.call_function(ctx, func, [mask, j], {'normalize': normalize, 'rho': rho, 'theta': theta})
        i, jx = ints(ctx, 'i', 'jx')
        ctx.assume(z3.And(i >= 0, i < h, jx >= 0, jx < w))
        r, t, mk = rho.at((i, jx)), theta.at((i, jx)), mask.at((i, jx))
        N = 1
        if normalize:
            N = L.sqrt_scalar(ctx, n + 1)
            if m != 0:
                N = S.mul(L.sqrt_scalar(ctx, 2), N)
        R = radial_textbook(n, m, r)
        if m == 0:
            az = 1
        elif m > 0:
            az = L.cos_scalar(ctx, S.mul(m, t))
        else:
            az = L.sin_scalar(ctx, S.mul(m, t))          # sin(m theta), m < 0
        want = S.mul(S.mul(S.mul(N, R), az), S.ite(S.truth(mk), 1, 0))
        got = Z.at((i, jx))
        if j == 1:
            want = S.ite(S.truth(mk), 1, 0)
        ctx.oblige('C11::mode[j=%d] = norm * radial * azimuthal inside the mask, 0 outside' % j, S.eq(S.num(got), want))
        ctx.oblige('C11::mode[j=%d] parity (even j cosine, odd j sine)' % j, (m == 0) or ((m > 0) == (j % 2 == 0)))
    return ('C11::mode[j=%d]' % j, lemma)


def coordinates_origin(ctx):
    """zernike_coordinates(mask): the polar origin (rho = 0) is the centroid of the mask for either parity of
    the array size, and rho is the distance to it divided by the largest masked distance."""
    h, w = shape2(ctx, 'mask')
    mask = array(ctx, 'mask', (h, w), 'bool')
    func = ctx.world.repo.function('lentil.zernike.zernike_coordinates')
    rho, theta = ctx.world.interp.call_function(ctx, func, [mask], {})
    cen = getattr(ctx, 'ghost_centroid', None)
    if cen is None:
        ctx.oblige('C11::zernike_coordinates.origin_is_taken_from_the_mask_centroid', False)
        return
    i, jx = ints(ctx, 'i', 'jx')
    ctx.assume(z3.And(i >= 0, i < h, jx >= 0, jx < w))
    mx = getattr(ctx, 'ghost_max', None)
    if mx is None:
        ctx.oblige('C11::zernike_coordinates.rho_scaled_by_the_largest_masked_distance', False)
        return
    d2 = S.add(S.mul(S.sub(i, cen[0]), S.sub(i, cen[0])), S.mul(S.sub(jx, cen[1]), S.sub(jx, cen[1])))
    got = rho.at((i, jx))
    # rho * max = distance to the centroid:  (rho * mx)^2 = (i - cr)^2 + (j - cc)^2, rho >= 0
    lhs = S.mul(got, mx)
    ctx.oblige('C11::zernike_coordinates.rho_is_distance_to_centroid_over_max',
               z3.Implies(S.z(mx) > 0, z3.And(S.z(S.eq(S.mul(lhs, lhs), d2)), S.z(S.ge(lhs, 0)))))


def centroid_call_model(ctx, env):
    cr, cc = ctx.fresh_real('centroid_r'), ctx.fresh_real('centroid_c')
    ctx.ghost_centroid = (cr, cc)
    ctx.assumptions.add('abstract:lentil.util.centroid (first moment; bounded stand-in C20)')
    return (cr, cc)


cc_ = contract('lentil.util.centroid')
cc_.call_model = centroid_call_model


def lemmas():
    out = [('C11::noll_index_is_injective', index_injective), ('C11::zernike_coordinates.origin', coordinates_origin)]
    for n in range(0, NMAX + 1):
        for m in range(n % 2, n + 1, 2):
            out.append(radial_lemma(n, m))
    for j in range(1, (NMAX + 1) * (NMAX + 2) // 2 + 1):
        out.append(mode_lemma(j))
    return out


# ---------------------------------------------------------------------------------------
# C12: basis / compose / fit / remove (linear algebra abstract)

MODE_SETS = [[4], [2, 3], [7, 4, 11], [1, 2, 3, 4]]


def _zargs(ctx):
    h, w = shape2(ctx, 'mask')
    mask = array(ctx, 'mask', (h, w), 'bool')
    rho = array(ctx, 'rho', (h, w), 'float')
    theta = array(ctx, 'theta', (h, w), 'float')
    return h, w, mask, rho, theta


def _mode_at(ctx, mask, j, normalize, rho, theta, i, jx):
    func = ctx.world.repo.function('lentil.zernike.zernike')
    Z = ctx.world.interp.call_function(ctx, func, [mask, j], {'normalize': normalize, 'rho': rho, 'theta': theta})
    return S.num(Z.at((i, jx)))


def basis_lemma(modes):
    def lemma(ctx):
        """zernike_basis(mask, modes, normalize=, rho=, theta=)[k] is mode modes[k] evaluated with the caller's
        normalisation flag and coordinates (argument binding), also vectorised."""
        h, w, mask, rho, theta = _zargs(ctx)
        normalize = ctx.branch(ctx.fresh_bool('normalize'))
        func = ctx.world.repo.function('lentil.zernike.zernike_basis')
        B = ctx.world.interp.call_function(ctx, func, [mask, PyList(list(modes))], {'normalize': normalize, 'rho': rho, 'theta': theta})
        i, jx = ints(ctx, 'i', 'jx')
        ctx.assume(z3.And(i >= 0, i < h, jx >= 0, jx < w))
        for k, j in enumerate(modes):
            ctx.oblige('C12::zernike_basis%s row %d is mode %d' % (modes, k, j),
                       S.eq(S.num(B.at((k, i, jx))), _mode_at(ctx, mask, j, normalize, rho, theta, i, jx)))
    return ('C12::zernike_basis%s' % modes, lemma)


def compose_lemma(ncoef):
    def lemma(ctx):
        """zernike_compose(mask, coeffs, normalize, rho, theta) = sum_k coeffs[k] * mode (k+1)."""
        h, w, mask, rho, theta = _zargs(ctx)
        normalize = ctx.branch(ctx.fresh_bool('normalize'))
        cs = [ctx.fresh_real('c%d' % k) for k in range(ncoef)]
        func = ctx.world.repo.function('lentil.zernike.zernike_compose')
        opd = ctx.world.interp.call_function(ctx, func, [mask, PyList(cs)], {'normalize': normalize, 'rho': rho, 'theta': theta})
        i, jx = ints(ctx, 'i', 'jx')
        ctx.assume(z3.And(i >= 0, i < h, jx >= 0, jx < w))
        want = 0
        for k, c_ in enumerate(cs):
            want = S.add(want, S.mul(c_, _mode_at(ctx, mask, k + 1, normalize, rho, theta, i, jx)))
        ctx.oblige('C12::zernike_compose[%d coefficients]' % ncoef, S.eq(S.num(opd.at((i, jx))), want))
    return ('C12::zernike_compose[%d]' % ncoef, lemma)


def fit_lemma(modes):
    def lemma(ctx):
        """zernike_fit builds the vectorised basis of exactly the requested modes with the caller's flag and
        coordinates, pseudo-inverts it and projects the flattened OPD: c_k = sum_p pinv(B)[p, k] opd_flat[p]."""
        h, w, mask, rho, theta = _zargs(ctx)
        opd = array(ctx, 'opd', (h, w), 'float')
        normalize = ctx.branch(ctx.fresh_bool('normalize'))
        func = ctx.world.repo.function('lentil.zernike.zernike_fit')
        ctx.no_model = {'lentil.zernike.zernike_fit'}
        c_ = ctx.world.interp.call_function(ctx, func, [opd, mask, PyList(list(modes))], {'normalize': normalize, 'rho': rho, 'theta': theta})
        calls = ctx.__dict__.get('ghost_pinv_calls', [])
        ctx.oblige('C12::zernike_fit%s one pseudo-inverse' % modes, len(calls) == 1, 'structure')
        if len(calls) != 1:
            return
        Bm, P = calls[0]['input'], calls[0]['out']
        i, jx = ints(ctx, 'i', 'jx')
        ctx.assume(z3.And(i >= 0, i < h, jx >= 0, jx < w))
        flat = S.add(S.mul(i, w), jx)
        ctx.oblige('C12::zernike_fit%s basis shape' % modes, z3.And(z3.BoolVal(Bm.shape[0] == len(modes)), S.z(S.eq(Bm.shape[1], S.mul(h, w)))))
        for k, j in enumerate(modes):
            ctx.oblige('C12::zernike_fit%s basis row %d is mode %d at the given coordinates' % (modes, k, j),
                       S.eq(S.num(Bm.at((k, flat))), _mode_at(ctx, mask, j, normalize, rho, theta, i, jx)))
        from lvc.prove import oblige_equal
        for k in range(len(modes)):
            want = S.sigma(0, S.mul(h, w), lambda p, k=k: S.mul(P.at((p, k)), opd.at((S.floordiv(p, w), S.mod(p, w)))))
            oblige_equal(ctx, 'C12::zernike_fit%s coefficient %d is the projection' % (modes, k), c_.at((k,)), want)
    return ('C12::zernike_fit%s' % modes, lemma)


def fit_call_model(ctx, env):
    modes = env['modes']
    n = len(ctx.world.interp.iterate(ctx, modes)) if not S.is_scalar(modes) else 1
    out = A.fresh_array(ctx, 'fit_coeffs', (n,), 'float')
    ctx.__dict__.setdefault('ghost_fit_calls', []).append(dict(env, out=out))
    ctx.assumptions.add('contract:lentil.zernike.zernike_fit (coefficients abstract at this call site)')
    return out


cf = contract('lentil.zernike.zernike_fit')
cf.call_model = fit_call_model


def remove_lemma(modes):
    def lemma(ctx):
        """zernike_remove(opd, mask, modes, rho, theta) = opd - sum_k c_k * mode modes[k](rho, theta), where c is
        zernike_fit called with the SAME opd, mask, modes and the caller's coordinates (argument binding)."""
        h, w, mask, rho, theta = _zargs(ctx)
        opd = array(ctx, 'opd', (h, w), 'float')
        func = ctx.world.repo.function('lentil.zernike.zernike_remove')
        mlist = PyList(list(modes))
        res = ctx.world.interp.call_function(ctx, func, [opd, mask, mlist], {'rho': rho, 'theta': theta})
        calls = ctx.__dict__.get('ghost_fit_calls', [])
        ctx.oblige('C12::zernike_remove%s fits once' % modes, len(calls) == 1)
        if len(calls) != 1:
            return
        k0 = calls[0]
        same = lambda a, b: isinstance(a, Arr) and isinstance(b, Arr) and a.cell is b.cell
        ctx.oblige('C12::zernike_remove%s fit is called with the given opd, mask, modes, rho, theta' % modes,
                   same(k0['opd'], opd) and same(k0['mask'], mask) and k0['modes'] is mlist
                   and same(k0.get('rho'), rho) and same(k0.get('theta'), theta) and k0.get('normalize', True) is True,
                   info={'normalize': str(k0.get('normalize')), 'rho_is_rho': same(k0.get('rho'), rho)})
        c_ = k0['out']
        i, jx = ints(ctx, 'i', 'jx')
        ctx.assume(z3.And(i >= 0, i < h, jx >= 0, jx < w))
        want = opd.at((i, jx))
        for k, j in enumerate(modes):
            want = S.sub(want, S.mul(c_.at((k,)), _mode_at(ctx, mask, j, True, rho, theta, i, jx)))
        ctx.oblige('C12::zernike_remove%s residual = opd - fitted component in the requested modes' % modes,
                   S.eq(S.num(res.at((i, jx))), want))
    return ('C12::zernike_remove%s' % modes, lemma)


def c12_lemmas():
    out = []
    for ms in MODE_SETS:
        out += [basis_lemma(ms), fit_lemma(ms), remove_lemma(ms)]
    out += [compose_lemma(3), compose_lemma(5)]
    return out
