"""Client lemmas for C19: pixel, jitter and smear blurs (Fourier-domain multiplication)."""
import z3

from lvc import sym as S
from lvc import arrops as A
from lvc import nplib as L
from lvc.spec import ints, shape2, array
from lvc.values import Arr
from lvc.prove import oblige_equal, with_hyp


def freq(n, i):
    """np.fft.fftfreq(n)[i]"""
    half = S.floordiv(S.add(n, 1), 2)
    return S.truediv(S.ite(S.lt(i, half), i, S.sub(i, n)), n)


def _blur_lemma(name, qual, mk_args, kernel, renormalised=False):
    def lemma(ctx):
        """The blur is |ifft2(fft2(img) * K)| (renormalised for jitter / smear) with the transfer function K of
        the statement, for images of ANY shape (n rows, m columns); K has unit gain at zero frequency."""
        n, m = shape2(ctx, 'img')
        img = array(ctx, 'img', (n, m), 'float')
        args, kw, pre = mk_args(ctx)
        for p in pre:
            ctx.assume(p)
        func = ctx.world.repo.function(qual)
        out = ctx.world.interp.call_function(ctx, func, [img] + args, kw)
        calls = ctx.__dict__.get('ghost_fft_calls', [])
        fwd = [c for c in calls if c['fn'] == 'fft2']
        inv = [c for c in calls if c['fn'] == 'ifft2']
        ctx.oblige('C19::%s.one_forward_one_inverse_fft' % name, len(fwd) == 1 and len(inv) == 1, 'structure')
        if len(fwd) != 1 or len(inv) != 1:
            return
        i, j = ints(ctx, 'i', 'j')
        inr = [i >= 0, i < n, j >= 0, j < m]
        ctx.oblige('C19::%s.output_has_the_input_shape' % name, z3.And(S.z(S.eq(out.shape[0], n)), S.z(S.eq(out.shape[1], m)),
                                                                       S.z(S.eq(inv[0]['input'].shape[0], n)), S.z(S.eq(inv[0]['input'].shape[1], m))))
        # forward transform is applied to the image itself
        with_hyp(ctx, inr, lambda: oblige_equal(ctx, 'C19::%s.fft_of_the_image' % name, fwd[0]['input'].at((i, j)), img.at((i, j))))
        # what goes into the inverse transform: spectrum * K(i, j), K from the statement
        spec = ctx.world.library['numpy.fft.fft2']           # the abstract spectrum is the fresh array fft2!k
        prod = inv[0]['input'].at((i, j))
        K = kernel(ctx, n, m, i, j, args, kw)
        # recover the spectrum element: the product's factors are (fresh spectrum element) * K
        # -> compare against the same fresh element obtained by dividing is impossible; instead rebuild:
        specel = ctx.ghost_last_fft2.at((i, j))
        with_hyp(ctx, inr, lambda: oblige_equal(ctx, 'C19::%s.transfer_function' % name, prod, S.mul(S.cx(specel), K)))
        K0 = kernel(ctx, n, m, 0, 0, args, kw)
        ctx.oblige('C19::%s.unit_gain_at_zero_frequency' % name, S.eq(K0, 1))
        # what comes out: the modulus of the inverse transform, for jitter and smear rescaled by
        # sum(img) / sum(modulus) - the step that keeps the total of the image
        from lvc import prove
        G = inv[0]['output']
        mod = lambda a, b: L.sqrt_scalar(ctx, S.cabs2(S.cx(G.at((a, b)))))
        if not renormalised:
            with_hyp(ctx, inr, lambda: oblige_equal(ctx, 'C19::%s.output_is_the_modulus_of_the_inverse_transform' % name, out.at((i, j)), mod(i, j)))
            return
        prove.force(ctx, out)
        total_mod = S.sigma(0, n, lambda a: S.sigma(0, m, lambda b: mod(a, b)))
        v = prove.find_named_sum(ctx, total_mod)
        ctx.oblige('C19::%s.renormalised_by_the_total_of_the_modulus' % name, v is not None, 'structure')
        if v is None:
            return
        total_img = S.sigma(0, n, lambda a: S.sigma(0, m, lambda b: img.at((a, b))))
        with_hyp(ctx, inr + [v != 0], lambda: oblige_equal(ctx, 'C19::%s.output_is_modulus_times_total_of_image_over_total_of_modulus' % name,
                                                            out.at((i, j)), S.truediv(S.mul(total_img, mod(i, j)), v), 'structure'))
    return ('C19::' + name, lemma)


def pixel_kernel(ctx, n, m, i, j, args, kw):
    os_ = args[0] if args else kw.get('oversample', 1)
    return S.mul(L.sinc_scalar(ctx, S.mul(freq(n, i), os_)), L.sinc_scalar(ctx, S.mul(freq(m, j), os_)))


def jitter_kernel(ctx, n, m, i, j, args, kw):
    scale, ps, os_ = args[0], kw.get('pixelscale', 1), kw.get('oversample', 1)
    sigma = S.mul(S.truediv(scale, ps), os_)
    rho2 = S.add(S.mul(freq(m, j), freq(m, j)), S.mul(freq(n, i), freq(n, i)))
    arg = S.mul(S.mul(S.mul(S.mul(-2, L.PI), L.PI), S.mul(sigma, sigma)), rho2)
    return L.exp_scalar(ctx, arg)


def smear_kernel(ctx, n, m, i, j, args, kw):
    dist, ps, os_ = args[0], kw.get('pixelscale', 1), kw.get('oversample', 1)
    ang = S.truediv(S.mul(kw['angle'], L.PI), 180)
    rot = S.add(S.mul(L.sin_scalar(ctx, ang), freq(n, i)), S.mul(L.cos_scalar(ctx, ang), freq(m, j)))
    return L.sinc_scalar(ctx, S.mul(S.mul(rot, S.truediv(dist, ps)), os_))


def _pix_args(ctx):
    os_ = ctx.fresh_int('oversample')
    return [os_], {}, [os_ >= 1]


def _jit_args(ctx):
    sc, ps, os_ = ctx.fresh_real('scale'), ctx.fresh_real('pixelscale'), ctx.fresh_int('oversample')
    return [sc], {'pixelscale': ps, 'oversample': os_}, [sc >= 0, ps > 0, os_ >= 1]


def _smear_args(ctx):
    d, ps, os_, ang = ctx.fresh_real('distance'), ctx.fresh_real('pixelscale'), ctx.fresh_int('oversample'), ctx.fresh_real('angle')
    return [d], {'angle': ang, 'pixelscale': ps, 'oversample': os_}, [d >= 0, ps > 0, os_ >= 1]


def units_equivalent(ctx):
    """An extent given in physical units with a pixel scale equals the same extent in samples:
    kernel(scale = s p, pixelscale = p) = kernel(scale = s, pixelscale = 1) at every frequency."""
    n, m = shape2(ctx, 'img')
    i, j = ints(ctx, 'i', 'j')
    s, p = ctx.fresh_real('s'), ctx.fresh_real('p')
    os_ = ctx.fresh_int('oversample')
    ang = ctx.fresh_real('angle')
    ctx.assume(z3.And(p > 0, os_ >= 1))
    a = jitter_kernel(ctx, n, m, i, j, [S.mul(s, p)], {'pixelscale': p, 'oversample': os_})
    b = jitter_kernel(ctx, n, m, i, j, [s], {'pixelscale': 1, 'oversample': os_})
    oblige_equal(ctx, 'C19::jitter.units_equivalent', a, b)
    a = smear_kernel(ctx, n, m, i, j, [S.mul(s, p)], {'angle': ang, 'pixelscale': p, 'oversample': os_})
    b = smear_kernel(ctx, n, m, i, j, [s], {'angle': ang, 'pixelscale': 1, 'oversample': os_})
    oblige_equal(ctx, 'C19::smear.units_equivalent', a, b)


def zero_extent_is_identity(ctx):
    """Zero extent: the transfer function is identically 1 (so the blur is |ifft2(fft2(img))|)."""
    n, m = shape2(ctx, 'img')
    i, j = ints(ctx, 'i', 'j')
    os_ = ctx.fresh_int('oversample')
    ctx.assume(os_ >= 1)
    ctx.oblige('C19::jitter.identity_at_zero', S.eq(jitter_kernel(ctx, n, m, i, j, [0], {'pixelscale': ctx.fresh_real('p'), 'oversample': os_}), 1))
    ctx.oblige('C19::smear.identity_at_zero', S.eq(smear_kernel(ctx, n, m, i, j, [0], {'angle': ctx.fresh_real('a'), 'pixelscale': ctx.fresh_real('p2'), 'oversample': os_}), 1))


LEMMAS = [_blur_lemma('pixel', 'lentil.detector.pixel', _pix_args, pixel_kernel),
          _blur_lemma('jitter', 'lentil.convolvable.jitter', _jit_args, jitter_kernel, renormalised=True),
          _blur_lemma('smear', 'lentil.convolvable.smear', _smear_args, smear_kernel, renormalised=True),
          ('C19::units_equivalent', units_equivalent), ('C19::zero_extent', zero_extent_is_identity)]
