"""Contracts for lentil/field.py (property C06; carried into C02, C03, C04, C07, C09).

Abstract view (from the property statement): a Field is its data embedded at its offset in an
infinite plane of zeros, the centre sample (index floor(n/2)) sitting at plane coordinate
`offset`; a one-element Field is the constant function.
"""
import z3

from lvc import sym as S
from lvc import arrops as A
from lvc.spec import contract, ints, shape2, array, LoopSpec, extent
from lvc.values import Arr, Obj, PyList, Seq
from lvc.interp import Raised
from contracts import extent as X

MAXSIZE = 2 ** 63 - 1


# ---------------------------------------------------------------------------------------
# symbolic Fields

def mk_field(ctx, name, kind='array', tilt=None, pixelscale=None):
    """A well-formed Field: 2-D data with h, w >= 1 (kind='array') or 0-d data (kind='scalar')."""
    cls = ctx.world.repo.klass('lentil.field.Field')
    ro, co = z3.Int(ctx._name(name + '.off_r')), z3.Int(ctx._name(name + '.off_c'))
    if kind == 'array':
        h, w = shape2(ctx, name)
        data = array(ctx, name + '.data', (h, w), 'complex')
        ext = X.array_extent_model(ctx, {'shape': (h, w), 'shift': (ro, co), 'parent_shape': None})
    else:
        data = array(ctx, name + '.data', (), 'complex')
        ext = X.array_extent_model(ctx, {'shape': (), 'shift': (ro, co), 'parent_shape': None})
    return Obj(cls, {'data': data, 'pixelscale': pixelscale, 'offset': PyList([ro, co]),
                     'tilt': tilt if tilt is not None else PyList([]), 'extent': ext})


def off(F):
    o = F.attrs['offset']
    if isinstance(o, PyList):
        return o.items[0], o.items[1]
    if isinstance(o, Arr):
        return o.at((0,)), o.at((1,))
    return o[0], o[1]


def embed(ctx, F, r, c):
    """Value of the Field's embedding at plane coordinate (r, c)."""
    data = F.attrs['data']
    if data.ndim == 0:
        return S.cx(data.at(()))
    if data.ndim != 2:
        return S.Cx(0, 0)          # the empty product
    h, w = data.shape
    ro, co = off(F)
    i = S.sub(r, S.add(S.neg(S.floordiv(h, 2)), ro))
    j = S.sub(c, S.add(S.neg(S.floordiv(w, 2)), co))
    inside = S.and_(S.ge(i, 0), S.lt(i, h), S.ge(j, 0), S.lt(j, w))
    one = S.and_(S.eq(h, 1), S.eq(w, 1))        # a one-element field is an infinite constant
    return S.ite(one, S.cx(data.at((0, 0))), S.ite(inside, S.cx(data.at((i, j))), S.Cx(0, 0)))


def one_element(F):
    d = F.attrs['data']
    if d.ndim == 0:
        return z3.BoolVal(True)
    if d.ndim != 2:
        return z3.BoolVal(False)
    return S.z(S.and_(S.eq(d.shape[0], 1), S.eq(d.shape[1], 1)))


def is_empty(F):
    d = F.attrs['data']
    return d.ndim == 1


def wf_extent(ctx, F):
    """Class invariant: the stored extent is array_extent(shape, offset)."""
    d = F.attrs['data']
    e = X.array_extent_model(ctx, {'shape': d.shape, 'shift': off(F), 'parent_shape': None})
    return z3.And(*[S.z(S.eq(x, y)) for x, y in zip(F.attrs['extent'], e)])


def cx_eq(a, b):
    a, b = S.cx(a), S.cx(b)
    return S.z(S.and_(S.eq(a.re, b.re), S.eq(a.im, b.im)))


# ---------------------------------------------------------------------------------------
c = contract('lentil.field.Field.__init__')


def _init_params(ctx):
    cls = ctx.world.repo.klass('lentil.field.Field')
    self = Obj(cls)
    kind = ctx.branch(ctx.fresh_bool('data_is_2d'))
    if kind:
        h, w = shape2(ctx, 'data')
        data = array(ctx, 'data', (h, w), 'complex')
    else:
        data = array(ctx, 'data', (), 'complex')
    if ctx.branch(ctx.fresh_bool('offset_given')):
        offset = PyList(list(ints(ctx, 'off_r', 'off_c')))
    else:
        offset = None
    return {'self': self, 'data': data, 'pixelscale': None, 'offset': offset, 'tilt': None}


c.params = _init_params
c.modifies = {'self'}


@c.post('extent_invariant')
def _(ctx, env0, env, out):
    if out.kind != 'return':
        return False
    F = env['self']
    return wf_extent(ctx, F)


@c.post('defaults')
def _(ctx, env0, env, out):
    F = env['self']
    o = F.attrs['offset']
    ok = isinstance(F.attrs['tilt'], PyList) and len(F.attrs['tilt'].items) == 0
    if env0['offset'] is None:
        ok = ok and isinstance(o, PyList) and [x for x in o.items] == [0, 0]
    return ok


# ---------------------------------------------------------------------------------------
c = contract('lentil.field.Field.__mul__')


def _mul_params(ctx):
    a = mk_field(ctx, 'a', 'array' if ctx.branch(ctx.fresh_bool('a_is_2d')) else 'scalar',
                 tilt=PyList([ctx.fresh_int('ta')]))
    b = mk_field(ctx, 'b', 'array' if ctx.branch(ctx.fresh_bool('b_is_2d')) else 'scalar',
                 tilt=PyList([ctx.fresh_int('tb')] if ctx.branch(ctx.fresh_bool('b_has_tilt')) else []))
    return {'self': a, 'other': b}


c.params = _mul_params


def _one_element_pair(ctx, env0):
    a, b = env0['self'], env0['other']
    (ar, ac), (br, bc) = off(a), off(b)
    return z3.And(one_element(a), one_element(b), z3.Or(ar != br, ac != bc))


@c.post('pointwise_product')
def _(ctx, env0, env, out):
    if out.kind != 'return':
        return False
    a, b, res = env0['self'], env0['other'], out.value
    r, cc = ints(ctx, 'r', 'c')
    want = S.mul(embed(ctx, a, r, cc), embed(ctx, b, r, cc))
    got = embed(ctx, res, r, cc)
    return cx_eq(got, want)


def _single_pixel_overlap(ctx, env0):
    a, b = env0['self'], env0['other']
    e = X.intersection_extent_model(ctx, {'a': a.attrs['extent'], 'b': b.attrs['extent']})
    return z3.And(z3.Not(one_element(a)), z3.Not(one_element(b)),
                  S.z(S.eq(e[0], e[1])), S.z(S.eq(e[2], e[3])))


c.witnesses['one-element-pair-at-different-offsets'] = _one_element_pair
c.witnesses['single-pixel-overlap-yields-one-element-field'] = _single_pixel_overlap


@c.post('result_well_formed')
def _(ctx, env0, env, out):
    res = out.value
    d = res.attrs['data']
    if d.ndim == 1:
        return S.z(S.eq(d.shape[0], 0))
    if d.ndim == 0:
        return True
    return z3.And(S.z(S.ge(d.shape[0], 1)), S.z(S.ge(d.shape[1], 1)), wf_extent(ctx, res))


@c.post('tilt_concatenated_into_new_list')
def _(ctx, env0, env, out):
    res = out.value
    t = res.attrs['tilt']
    a, b = env['self'], env['other']
    same = isinstance(t, PyList) and t is not a.attrs['tilt'] and t is not b.attrs['tilt']
    items = t.items == a.attrs['tilt'].items + b.attrs['tilt'].items
    return same and items


_.symbolic_only = True


# ---------------------------------------------------------------------------------------
c = contract('lentil.field.insert')


def _insert_params(ctx):
    f = mk_field(ctx, 'f', 'array' if ctx.branch(ctx.fresh_bool('f_is_2d')) else 'scalar')
    R, C = shape2(ctx, 'out', lo=0)
    intensity = ctx.branch(ctx.fresh_bool('intensity'))
    out = array(ctx, 'out', (R, C), 'float' if intensity else 'complex')
    w = z3.Real(ctx._name('weight'))
    return {'field': f, 'out': out, 'intensity': intensity, 'weight': w}


c.params = _insert_params
c.modifies = {'out'}


def insert_model(ctx, env):
    """out[r, c] += weight * v(embed(field)(r - R//2, c - C//2)),  v = |.|^2 if intensity.
    Written for 2-D targets; array position r of `out` carries plane coordinate r - floor(R/2)."""
    f, out, intensity, weight = env['field'], env['out'], env.get('intensity', False), env.get('weight', 1)
    if out.ndim != 2:
        raise S.Unsupported('insert model: target must be 2-D')
    R, C = out.shape
    snap = out.snapshot()
    cell = out.cell
    old = cell.get
    view = out

    def new_get(b):
        cond, (r, c) = A.view_inverse(ctx, view, b)
        e = embed(ctx, f, S.sub(r, S.floordiv(R, 2)), S.sub(c, S.floordiv(C, 2)))
        v = S.cabs2(e) if intensity else e
        v = S.mul(v, weight)
        new = A.cast_scalar(S.add(old(b), v), cell.dtype)
        return A._ite_any(cond, new, old(b))
    cell.get = new_get
    ctx.write_event(cell, 'insert')
    return out


def _insert_one_element(ctx, env0):
    return one_element(env0['field'])


@c.post('adds_embedding_inside_out')
def _(ctx, env0, env, out):
    if out.kind != 'return':
        return False
    f, o0, o1 = env0['field'], env0['out'], env['out']
    R, C = o0.shape
    r, cc = ints(ctx, 'r', 'c')
    e = embed(ctx, f, r - R / 2, cc - C / 2)
    v = S.cabs2(e) if env0['intensity'] else e
    want = S.add(o0.at((r, cc)), S.mul(v, env0['weight']))
    got = o1.at((r, cc))
    inside = z3.And(r >= 0, r < R, cc >= 0, cc < C)
    ctx.oblige('field.insert::returns_out', out.value is env['out'])
    return z3.Implies(inside, cx_eq(got, want))


c.witnesses['one-element-field'] = _insert_one_element


def _insert_array_params(ctx):
    env = {}
    f = mk_field(ctx, 'f', 'array')
    h, w = f.attrs['data'].shape
    ctx.assume(z3.Not(z3.And(h == 1, w == 1)))
    R, C = shape2(ctx, 'out', lo=0)
    intensity = ctx.branch(ctx.fresh_bool('intensity'))
    out = array(ctx, 'out', (R, C), 'float' if intensity else 'complex')
    return {'field': f, 'out': out, 'intensity': intensity, 'weight': z3.Real(ctx._name('weight'))}


# the same contract restricted to array fields (>= 2 elements): used where insert is re-verified as a
# dependency of another property, without the one-element known finding of C06
ca = contract('lentil.field.insert#array')
ca.qualname = 'lentil.field.insert'
ca.tag = 'array fields'
ca.params = _insert_array_params
ca.modifies = {'out'}
ca.model = insert_model
ca.posts = list(c.posts)
# the body is verified against the property clause above and, separately, against the model that
# callers (Wavefront.field, propagate_fft, ...) use in its place
c.model = insert_model


# ---------------------------------------------------------------------------------------
# families of fields (sequences of symbolic length)

def field_family(ctx, name, n):
    """A Seq of n well-formed 2-D Fields: shapes, offsets and data are functions of the index."""
    I = z3.IntSort()
    H = z3.Function(ctx._name(name + '.h'), I, I)
    W = z3.Function(ctx._name(name + '.w'), I, I)
    RO = z3.Function(ctx._name(name + '.off_r'), I, I)
    CO = z3.Function(ctx._name(name + '.off_c'), I, I)
    DR = z3.Function(ctx._name(name + '.data.re'), I, I, I, z3.RealSort())
    DI = z3.Function(ctx._name(name + '.data.im'), I, I, I, z3.RealSort())
    PS = z3.Function(ctx._name(name + '.ps'), I, z3.RealSort())
    cls = ctx.world.repo.klass('lentil.field.Field')
    q = z3.Int(ctx._name('fam_q'))
    big = 2 ** 40
    ctx.assume(z3.ForAll([q], z3.And(H(q) >= 1, W(q) >= 1, H(q) < big, W(q) < big,
                                     RO(q) > -big, RO(q) < big, CO(q) > -big, CO(q) < big)))

    def elem(k):
        k = S.z(k)
        h, w = H(k), W(k)
        data = Arr.from_fn((h, w), 'complex', lambda idx, k=k: S.Cx(DR(k, S.z(idx[0]), S.z(idx[1])),
                                                                 DI(k, S.z(idx[0]), S.z(idx[1]))))
        ro, co = RO(k), CO(k)
        ext = X.array_extent_model(ctx, {'shape': (h, w), 'shift': (ro, co), 'parent_shape': None})
        return Obj(cls, {'data': data, 'pixelscale': PS(k), 'offset': PyList([ro, co]),
                         'tilt': PyList([]), 'extent': ext})
    return Seq(n, elem)


# ---------------------------------------------------------------------------------------
c = contract('lentil.field.boundary')


def _boundary_params(ctx):
    n = ctx.fresh_int('n')
    ctx.assume(n >= 0)
    return {'fields': field_family(ctx, 'F', n)}


c.params = _boundary_params


def _bnd_inv(ctx, env, k):
    fam = env['fields']
    rmin, rmax, cmin, cmax = [S.z(env[v]) for v in ('rmin', 'rmax', 'cmin', 'cmax')]
    j = z3.Int(ctx._name('bj'))
    e = fam.elem(j).attrs['extent']
    e = [S.z(x) for x in e]
    contains = z3.ForAll([j], z3.Implies(z3.And(j >= 0, j < k),
                                         z3.And(rmin <= e[0], rmax >= e[1], cmin <= e[2], cmax >= e[3])))
    js = [z3.Int(ctx._name('bw%d' % t)) for t in range(4)]
    es = [[S.z(x) for x in fam.elem(jj).attrs['extent']] for jj in js]
    attained = z3.Exists(js, z3.And(*[z3.And(jj >= 0, jj < k) for jj in js] +
                                     [rmin == es[0][0], rmax == es[1][1], cmin == es[2][2], cmax == es[3][3]]))
    empty = z3.And(rmin == MAXSIZE, rmax == -MAXSIZE, cmin == MAXSIZE, cmax == -MAXSIZE)
    k = S.z(k)
    return z3.And(contains, z3.If(k == 0, empty, attained))


def _bnd_havoc(ctx, env, k):
    return {v: ctx.fresh_int('bnd.' + v) for v in ('rmin', 'rmax', 'cmin', 'cmax')}


c.loops[0] = LoopSpec(['rmin', 'rmax', 'cmin', 'cmax'], inv=_bnd_inv, havoc=_bnd_havoc)


def boundary_spec(ctx, fam, res):
    """res is the bounding box of the extents of a non-empty family."""
    n = S.z(fam.length)
    rmin, rmax, cmin, cmax = [S.z(x) for x in res]
    j = z3.Int(ctx._name('sj'))
    e = [S.z(x) for x in fam.elem(j).attrs['extent']]
    contains = z3.ForAll([j], z3.Implies(z3.And(j >= 0, j < n),
                                         z3.And(rmin <= e[0], rmax >= e[1], cmin <= e[2], cmax >= e[3])))
    js = [z3.Int(ctx._name('sw%d' % t)) for t in range(4)]
    es = [[S.z(x) for x in fam.elem(jj).attrs['extent']] for jj in js]
    attained = z3.Exists(js, z3.And(*[z3.And(jj >= 0, jj < n) for jj in js] +
                                     [rmin == es[0][0], rmax == es[1][1], cmin == es[2][2], cmax == es[3][3]]))
    return z3.And(contains, attained)


@c.post('bounding_box')
def _(ctx, env0, env, out):
    fam = env0['fields']
    return z3.Implies(S.z(fam.length) >= 1, boundary_spec(ctx, fam, out.value))


def boundary_model(ctx, env):
    """Call-site model: fresh box constrained by the bounding-box specification."""
    fam = env['fields']
    if not isinstance(fam, Seq):
        items = ctx.world.interp.iterate(ctx, fam)
        if not items:
            return (MAXSIZE, -MAXSIZE, MAXSIZE, -MAXSIZE)
        e = items[0].attrs['extent']
        for f in items[1:]:
            g = f.attrs['extent']
            e = (S.min_(e[0], g[0]), S.max_(e[1], g[1]), S.min_(e[2], g[2]), S.max_(e[3], g[3]))
        return e
    res = tuple(ctx.fresh_int('bbox.' + v) for v in ('rmin', 'rmax', 'cmin', 'cmax'))
    ctx.assume(z3.Implies(S.z(fam.length) >= 1, boundary_spec(ctx, fam, res)), 'contract:lentil.field.boundary')
    ctx.assume(z3.Implies(S.z(fam.length) == 0, z3.And(res[0] == MAXSIZE, res[1] == -MAXSIZE,
                                                        res[2] == MAXSIZE, res[3] == -MAXSIZE)))
    return res
c = contract.__globals__['REGISTRY']['lentil.field.boundary']
c.call_model = boundary_model


# ---------------------------------------------------------------------------------------
# merge / reduce for a concrete number of fields (all geometry symbolic)

def mk_fields(ctx, n, prefix='f', min_size2=True, pixelscale=None):
    out = []
    for k in range(n):
        F = mk_field(ctx, '%s%d' % (prefix, k), 'array', pixelscale=pixelscale)
        if min_size2:
            h, w = F.attrs['data'].shape
            ctx.assume(z3.Not(z3.And(h == 1, w == 1)))
        out.append(F)
    return out


def total(ctx, fields, r, c):
    s = S.Cx(0, 0)
    for F in fields:
        s = S.add(s, embed(ctx, F, r, c))
    return s


def _merge_contract(n):
    c = contract('lentil.field._merge#%d' % n)
    c.qualname = 'lentil.field._merge'
    c.tag = 'n=%d' % n
    c.params = lambda ctx: {'fields': tuple(mk_fields(ctx, n))}

    @c.post('sum_of_embeddings')
    def _(ctx, env0, env, out):
        res = out.value
        r, cc = ints(ctx, 'r', 'c')
        ctx.oblige('field._merge::result_extent_invariant[n=%d]' % n, wf_extent(ctx, res))
        return cx_eq(embed(ctx, res, r, cc), total(ctx, env0['fields'], r, cc))
    return c


for _n in (1, 2, 3):
    _merge_contract(_n)


c = contract('lentil.field.merge')


def _merge_params(ctx):
    a, b = mk_fields(ctx, 2)
    return {'a': a, 'b': b, 'enforce_overlap': ctx.branch(ctx.fresh_bool('enforce_overlap'))}


c.params = _merge_params
c.raises['ValueError'] = lambda ctx, env: S.z(S.and_(
    env['enforce_overlap'],
    S.not_(X.intersect_model(ctx, {'a': env['a'].attrs['extent'], 'b': env['b'].attrs['extent']}))))


@c.post('sum_of_embeddings')
def _(ctx, env0, env, out):
    r, cc = ints(ctx, 'r', 'c')
    return cx_eq(embed(ctx, out.value, r, cc), total(ctx, [env0['a'], env0['b']], r, cc))


c = contract('lentil.field.overlap')
c.params = lambda ctx: {'fields': tuple(mk_fields(ctx, 2))}


@c.post('iff_common_pixel')
def _(ctx, env0, env, out):
    a, b = env0['fields']
    return S.z(ctx.world.interp.truthy(ctx, out.value)) == S.z(
        X.intersect_model(ctx, {'a': a.attrs['extent'], 'b': b.attrs['extent']}))


def _reduce_contract(n):
    c = contract('lentil.field.reduce#%d' % n)
    c.qualname = 'lentil.field.reduce'
    c.tag = 'n=%d' % n
    c.params = lambda ctx: {'fields': PyList(mk_fields(ctx, n))}

    @c.post('same_total_and_disjoint')
    def _(ctx, env0, env, out):
        res = out.value.items
        r, cc = ints(ctx, 'r', 'c')
        ctx.oblige('field.reduce::same_total[n=%d]' % n,
                   cx_eq(total(ctx, res, r, cc), total(ctx, env0['fields'].items, r, cc)))
        for i in range(len(res)):
            ctx.oblige('field.reduce::extent_invariant[n=%d]' % n, wf_extent(ctx, res[i]))
            for j in range(i + 1, len(res)):
                ctx.oblige('field.reduce::pairwise_non_overlapping[n=%d]' % n, S.z(S.not_(
                    X.intersect_model(ctx, {'a': res[i].attrs['extent'], 'b': res[j].attrs['extent']}))))
        return None
    return c


for _n in (1, 2, 3):
    _reduce_contract(_n)
