"""Contracts and client lemmas for lentil/radiometry.py (C13, C14, C15)."""
import itertools
from fractions import Fraction

import z3

from lvc import sym as S
from lvc import arrops as A
from lvc import nplib as L
from lvc.spec import contract, ints, shape2, array, elems
from lvc.values import Arr, Obj, PyList
from lvc.interp import Raised
from lvc.prove import oblige_equal
from contracts.ptype import new

WAVE_UNITS = ['m', 'um', 'nm', 'angstrom']
WAVE_ALIASES = {'m': ['m', 'meter'], 'um': ['um', 'micron'], 'nm': ['nm', 'nanometer'], 'angstrom': ['angstrom']}
FLUX_UNITS = ['photlam', 'flam', 'wlam']
SI = {'m': Fraction(1), 'um': Fraction(1, 10 ** 6), 'nm': Fraction(1, 10 ** 9), 'angstrom': Fraction(1, 10 ** 10)}


def rfunc(ctx, name):
    return ctx.world.repo.function('lentil.radiometry.' + name)


def call(ctx, name, *args, **kw):
    return ctx.world.interp.call_function(ctx, rfunc(ctx, name), list(args), kw)


def unit_obj(ctx, name):
    return call(ctx, 'Unit', name)


def wave_factor(ctx, a, b):
    """the real Unit(a).to(b) evaluated through the interpreter"""
    u = unit_obj(ctx, a)
    return ctx.world.interp.call_value(ctx, ctx.world.interp.getattr(ctx, u, 'to'), [b], {})


def flux_to(ctx, a, flux, b, wave):
    u = unit_obj(ctx, a)
    return ctx.world.interp.call_value(ctx, ctx.world.interp.getattr(ctx, u, 'to'), [flux, b, wave], {})


def wave_unit_lemmas():
    out = []

    def table(ctx):
        """All 4x4x4 wavelength-unit triples (complete): to(A,B) to(B,C) = to(A,C), to(A,A) = 1, and every
        factor equals the ratio of the SI sizes of the units; aliases and upper-case names agree."""
        for a, b, c in itertools.product(WAVE_UNITS, repeat=3):
            ab, bc, ac = wave_factor(ctx, a, b), wave_factor(ctx, b, c), wave_factor(ctx, a, c)
            ctx.oblige('C14::wave_units.compose[%s->%s->%s]' % (a, b, c), S.eq(S.mul(ab, bc), ac))
        for a, b in itertools.product(WAVE_UNITS, repeat=2):
            ab = wave_factor(ctx, a, b)
            ctx.oblige('C14::wave_units.si_ratio[%s->%s]' % (a, b), S.eq(ab, SI[a] / SI[b]))
            for alias_a in WAVE_ALIASES[a]:
                for alias_b in WAVE_ALIASES[b]:
                    for tr in (str, str.upper):
                        v = wave_factor(ctx, tr(alias_a), tr(alias_b))
                        ctx.oblige('C14::wave_units.alias[%s->%s]' % (tr(alias_a), tr(alias_b)), S.eq(v, ab))
    out.append(('C14::wave_unit_table', table))

    def flux(ctx):
        """All 3x3x3 flux-unit triples with symbolic flux and wavelength (metres): A->B->C equals A->C,
        A->A is the identity, round trips restore the value; photlam -> wlam is flux * h c / wavelength and
        flam is erg s^-1 cm^-2 = 1e-7 J / 1e-4 m^2."""
        f, w = ctx.fresh_real('flux'), ctx.fresh_real('wave_m')
        ctx.assume(w > 0)
        H, C = Fraction('6.62606957e-34'), Fraction(299792456)
        for a, b, c in itertools.product(FLUX_UNITS, repeat=3):
            lhs = flux_to(ctx, b, flux_to(ctx, a, f, b, w), c, w)
            rhs = flux_to(ctx, a, f, c, w)
            ctx.oblige('C14::flux_units.compose[%s->%s->%s]' % (a, b, c), S.eq(lhs, rhs))
        for a in FLUX_UNITS:
            ctx.oblige('C14::flux_units.identity[%s]' % a, S.eq(flux_to(ctx, a, f, a, w), f))
        ctx.oblige('C14::flux_units.photlam_to_wlam_is_photon_energy', S.eq(flux_to(ctx, 'photlam', f, 'wlam', w),
                                                                          S.truediv(S.mul(f, H * C), w)))
        ctx.oblige('C14::flux_units.wlam_to_flam_is_1e3', S.eq(flux_to(ctx, 'wlam', f, 'flam', w), S.mul(f, 1000)))
    out.append(('C14::flux_unit_table', flux))

    def planck(ctx):
        """planck_radiance / planck_exitance describe one physical quantity in every unit pair: for a
        wavelength given in unit U, the result converted back to W m^-2 m^-1 (per metre) equals the SI
        Planck law; exitance = pi * radiance.  exp is uninterpreted (equal arguments)."""
        wm, T = ctx.fresh_real('wave_m'), ctx.fresh_real('temp')
        ctx.assume(z3.And(wm > 0, T > 0))
        base = call(ctx, 'planck_radiance', wm, T, 'm', 'wlam')
        for u in WAVE_UNITS:
            wu = S.truediv(wm, SI[u])                      # the same wavelength expressed in unit u
            for vu in FLUX_UNITS:
                rad = call(ctx, 'planck_radiance', wu, T, u, vu)
                exi = call(ctx, 'planck_exitance', wu, T, u, vu)
                ctx.oblige('C14::planck.exitance_is_pi_radiance[%s,%s]' % (u, vu), S.eq(exi, S.mul(L.PI, rad)))
                # back to SI: value per unit-u -> per metre, flux unit -> wlam
                per_m = S.truediv(rad, SI[u])
                si = flux_to(ctx, vu, per_m, 'wlam', wm)
                ctx.oblige('C14::planck.unit_independent[%s,%s]' % (u, vu), S.eq(si, base))
    out.append(('C14::planck_unit_independence', planck))

    def vega(ctx):
        """vegaflux: for every band the wavelength and flux returned in unit U / flux unit V describe the
        same physical zero point."""
        interp = ctx.world.interp
        for band in ('U', 'V', 'K', 'W4'):
            f0, w0 = call(ctx, 'vegaflux', band, 'm', 'photlam')
            for u in WAVE_UNITS:
                for vu in FLUX_UNITS:
                    f1, w1 = call(ctx, 'vegaflux', band, u, vu)
                    ctx.oblige('C14::vegaflux.wavelength[%s,%s]' % (band, u), S.eq(S.mul(w1, SI[u]), w0))
                    back = flux_to(ctx, vu, S.truediv(f1, SI[u]), 'photlam', w0)
                    ctx.oblige('C14::vegaflux.flux[%s,%s,%s]' % (band, u, vu), S.eq(back, f0))
    out.append(('C14::vegaflux_units', vega))
    return out
