"""Contracts and client lemmas for lentil/radiometry.py (C13, C14, C15)."""
import itertools
from fractions import Fraction

import z3

from lvc import sym as S
from lvc import arrops as A
from lvc import nplib as L
from lvc.spec import contract, ints, shape2, array, elems
from lvc.values import Arr, Obj, PyList
from lvc.interp import Raised
from lvc.prove import oblige_equal
from contracts.ptype import new

WAVE_UNITS = ['m', 'um', 'nm', 'angstrom']
WAVE_ALIASES = {'m': ['m', 'meter'], 'um': ['um', 'micron'], 'nm': ['nm', 'nanometer'], 'angstrom': ['angstrom']}
FLUX_UNITS = ['photlam', 'flam', 'wlam']
SI = {'m': Fraction(1), 'um': Fraction(1, 10 ** 6), 'nm': Fraction(1, 10 ** 9), 'angstrom': Fraction(1, 10 ** 10)}


def rfunc(ctx, name):
    return ctx.world.repo.function('lentil.radiometry.' + name)


def call(ctx, name, *args, **kw):
    return A.unwrap0(ctx.world.interp.call_function(ctx, rfunc(ctx, name), list(args), kw))


def unit_obj(ctx, name):
    return call(ctx, 'Unit', name)


def wave_factor(ctx, a, b):
    """the real Unit(a).to(b) evaluated through the interpreter"""
    u = unit_obj(ctx, a)
    return ctx.world.interp.call_value(ctx, ctx.world.interp.getattr(ctx, u, 'to'), [b], {})


def flux_to(ctx, a, flux, b, wave):
    u = unit_obj(ctx, a)
    return ctx.world.interp.call_value(ctx, ctx.world.interp.getattr(ctx, u, 'to'), [flux, b, wave], {})


def wave_unit_lemmas():
    out = []

    def table(ctx):
        """All 4x4x4 wavelength-unit triples (complete): to(A,B) to(B,C) = to(A,C), to(A,A) = 1, and every
        factor equals the ratio of the SI sizes of the units; aliases and upper-case names agree."""
        for a, b, c in itertools.product(WAVE_UNITS, repeat=3):
            ab, bc, ac = wave_factor(ctx, a, b), wave_factor(ctx, b, c), wave_factor(ctx, a, c)
            ctx.oblige('C14::wave_units.compose[%s->%s->%s]' % (a, b, c), S.eq(S.mul(ab, bc), ac))
        for a, b in itertools.product(WAVE_UNITS, repeat=2):
            ab = wave_factor(ctx, a, b)
            ctx.oblige('C14::wave_units.si_ratio[%s->%s]' % (a, b), S.eq(ab, SI[a] / SI[b]))
            for alias_a in WAVE_ALIASES[a]:
                for alias_b in WAVE_ALIASES[b]:
                    for tr in (str, str.upper):
                        v = wave_factor(ctx, tr(alias_a), tr(alias_b))
                        ctx.oblige('C14::wave_units.alias[%s->%s]' % (tr(alias_a), tr(alias_b)), S.eq(v, ab))
    out.append(('C14::wave_unit_table', table))

    def flux(ctx):
        """All 3x3x3 flux-unit triples with symbolic flux and wavelength (metres): A->B->C equals A->C,
        A->A is the identity, round trips restore the value; photlam -> wlam is flux * h c / wavelength and
        flam is erg s^-1 cm^-2 = 1e-7 J / 1e-4 m^2."""
        f, w = ctx.fresh_real('flux'), ctx.fresh_real('wave_m')
        ctx.assume(w > 0)
        H, C = Fraction('6.62606957e-34'), Fraction(299792456)
        for a, b, c in itertools.product(FLUX_UNITS, repeat=3):
            lhs = flux_to(ctx, b, flux_to(ctx, a, f, b, w), c, w)
            rhs = flux_to(ctx, a, f, c, w)
            ctx.oblige('C14::flux_units.compose[%s->%s->%s]' % (a, b, c), S.eq(lhs, rhs))
        for a in FLUX_UNITS:
            ctx.oblige('C14::flux_units.identity[%s]' % a, S.eq(flux_to(ctx, a, f, a, w), f))
        ctx.oblige('C14::flux_units.photlam_to_wlam_is_photon_energy', S.eq(flux_to(ctx, 'photlam', f, 'wlam', w),
                                                                          S.truediv(S.mul(f, H * C), w)))
        ctx.oblige('C14::flux_units.wlam_to_flam_is_1e3', S.eq(flux_to(ctx, 'wlam', f, 'flam', w), S.mul(f, 1000)))
    out.append(('C14::flux_unit_table', flux))

    def planck(ctx):
        """planck_radiance / planck_exitance describe one physical quantity in every unit pair: for a
        wavelength given in unit U, the result converted back to W m^-2 m^-1 (per metre) equals the SI
        Planck law; exitance = pi * radiance.  exp is uninterpreted (equal arguments)."""
        wm, T = ctx.fresh_real('wave_m'), ctx.fresh_real('temp')
        ctx.assume(z3.And(wm > 0, T > 0))
        base = call(ctx, 'planck_radiance', wm, T, 'm', 'wlam')
        for u in WAVE_UNITS:
            wu = S.truediv(wm, SI[u])                      # the same wavelength expressed in unit u
            for vu in FLUX_UNITS:
                rad = call(ctx, 'planck_radiance', wu, T, u, vu)
                exi = call(ctx, 'planck_exitance', wu, T, u, vu)
                ctx.oblige('C14::planck.exitance_is_pi_radiance[%s,%s]' % (u, vu), S.eq(exi, S.mul(L.PI, rad)))
                # back to SI: value per unit-u -> per metre, flux unit -> wlam
                per_m = S.truediv(rad, SI[u])
                si = flux_to(ctx, vu, per_m, 'wlam', wm)
                ctx.oblige('C14::planck.unit_independent[%s,%s]' % (u, vu), S.eq(si, base))
    out.append(('C14::planck_unit_independence', planck))

    def planck_array_argument(ctx):
        """planck_radiance / planck_exitance / Blackbody-style use with an ARRAY of wavelengths: the caller's array is
        not written (the unit conversion happens on a copy), so a second call on the same array gives the same
        values, element by element the scalar law."""
        n = ctx.fresh_int('n')
        ctx.assume(n >= 1)
        T = ctx.fresh_real('temp')
        ctx.assume(T > 0)
        i, = ints(ctx, 'i')
        for fn in ('planck_radiance', 'planck_exitance'):
            for u in ('nm', 'um'):
                wave = array(ctx, 'wave_%s_%s' % (fn, u), (n,), 'float')
                q = z3.Int(ctx._name('wq'))
                ctx.assume(z3.ForAll([q], z3.Implies(z3.And(q >= 0, q < n), S.z(wave.at((q,))) > 0)), axiom=True)
                w_before = wave.snapshot()
                first = call(ctx, fn, wave, T, u, 'wlam')
                ctx.oblige('C14::%s.array_argument_not_written[%s]' % (fn, u), len(wave.cell.writes) == 0,
                           info={'writes': [str(w_)[:80] for w_ in wave.cell.writes][:3]})
                second = call(ctx, fn, wave, T, u, 'wlam')
                with_hyp_(ctx, [i >= 0, i < n], lambda: ctx.oblige(
                    'C14::%s.second_call_on_the_same_array_agrees[%s]' % (fn, u),
                    S.and_(S.eq(A.as_array(ctx, first).at((i,)), A.as_array(ctx, second).at((i,))),
                           S.eq(wave.at((i,)), w_before.at((i,))))))
    out.append(('C14::planck_array_argument', planck_array_argument))

    def vega(ctx):
        """vegaflux: for every band the wavelength and flux returned in unit U / flux unit V describe the
        same physical zero point."""
        interp = ctx.world.interp
        for band in ('U', 'V', 'K', 'W4'):
            f0, w0 = call(ctx, 'vegaflux', band, 'm', 'photlam')
            for u in WAVE_UNITS:
                for vu in FLUX_UNITS:
                    f1, w1 = call(ctx, 'vegaflux', band, u, vu)
                    ctx.oblige('C14::vegaflux.wavelength[%s,%s]' % (band, u), S.eq(S.mul(w1, SI[u]), w0))
                    back = flux_to(ctx, vu, S.truediv(f1, SI[u]), 'photlam', w0)
                    ctx.oblige('C14::vegaflux.flux[%s,%s,%s]' % (band, u, vu), S.eq(back, f0))
    out.append(('C14::vegaflux_units', vega))
    return out


# =======================================================================================
# Spectrum objects (C13, C15)

_I, _Rs = z3.IntSort(), z3.RealSort()
INTERP = z3.Function('spectrum_interp', _I, _I, _Rs, _Rs, _Rs)      # spectrum state id, method id, fill, x -> value
METHOD_ID = {'linear': 1, 'quadratic': 2, 'cubic': 3}


def mk_spectrum(ctx, name, waveunit='nm', valueunit=None, n=None, pairwise=False):
    """A well-formed Spectrum (class invariant: strictly increasing positive wavelengths, one value each).
    pairwise=True also states the invariant for arbitrary index pairs p < q (equivalent to the consecutive
    form by induction on q - p; SMT solvers do not do that induction themselves)."""
    cls = ctx.world.repo.klass('lentil.radiometry.Spectrum')
    n = n if n is not None else ctx.fresh_int(name + '.n')
    if S.is_z3(n):
        ctx.assume(n >= 2)
    wave = array(ctx, name + '.wave', (n,), 'float')
    value = array(ctx, name + '.value', (n,), 'float')
    q = z3.Int(ctx._name('wq'))
    ctx.assume(z3.ForAll([q], z3.Implies(z3.And(q >= 0, q < S.z(n)), S.z(wave.at((q,))) > 0)), axiom=True)
    ctx.assume(z3.ForAll([q], z3.Implies(z3.And(q >= 0, q + 1 < S.z(n)), S.z(wave.at((q,))) < S.z(wave.at((q + 1,))))), axiom=True)
    if pairwise:
        p2 = z3.Int(ctx._name('wp'))
        ctx.assume(z3.ForAll([p2, q], z3.Implies(z3.And(p2 >= 0, p2 < q, q < S.z(n)),
                                                 S.z(wave.at((p2,))) < S.z(wave.at((q,))))), axiom=True)
    sp = Obj(cls, {'_wave': wave, '_value': value, '_waveunit': unit_obj(ctx, waveunit),
                   '_valueunit': unit_obj(ctx, valueunit) if valueunit else None, '__array_priority__': Fraction(1)})
    sp.attrs['_ghost_sid'] = ctx.fresh_int(name + '.state')
    return sp


def wave_setter_model(ctx, env):
    """Spectrum.wave = value: validates (positive, increasing, unique) and stores; the validity of a
    symbolic grid is an abstract condition here (the validation code uses numpy sort)."""
    self = env['self']
    if isinstance(env['value'], A.Gather):
        # a selection of the samples of a grid (np.delete): stays positive and strictly increasing when the
        # source was - shown for every pair of selected samples
        g = env['value']
        if getattr(ctx, 'grid_validation', None) != 'prove':
            raise S.Unsupported('wave setter given a selection outside a grid-proving lemma')
        n = g.mask.shape[0]
        p_, q = ctx.fresh_int('gp'), ctx.fresh_int('gq')
        sel = lambda t: S.z(S.truth(g.mask.at((t,))))
        k = len(ctx.__dict__.setdefault('ghost_wave_sets', []))
        ctx.oblige('radiometry.Spectrum.wave.setter::selection_positive_and_increasing[%s#%d]' % (getattr(ctx, 'grid_tag', ''), k),
                   z3.And(z3.Implies(z3.And(q >= 0, q < S.z(n), sel(q)), S.z(S.gt(g.value(q), 0))),
                          z3.Implies(z3.And(p_ >= 0, p_ < q, q < S.z(n), sel(p_), sel(q)), S.z(S.lt(g.value(p_), g.value(q))))), 'requires')
        ctx.ghost_wave_sets.append({'self': self, 'value': g, 'ok': True})
        ctx.assumptions.add('callee contract:Spectrum.wave setter accepts exactly the positive strictly increasing grids (discharged against the body: Spectrum.wave.setter#body)')
        self.attrs['_wave'] = g
        ctx.write_event(self, 'setattr _wave')
        return None
    value = A.as_array(ctx, env['value'])
    if getattr(ctx, 'grid_validation', None) == 'prove':
        # client lemmas that only ever hand over valid grids: show the grid positive and strictly increasing
        # (obligation) - the real validation accepts exactly such grids (checked natively, bounded C15)
        q = ctx.fresh_int('gq')
        n = value.shape[0]
        k = len(ctx.__dict__.setdefault('ghost_wave_sets', []))
        ctx.oblige('radiometry.Spectrum.wave.setter::grid_positive_and_increasing[%s#%d]' % (getattr(ctx, 'grid_tag', ''), k),
                   z3.And(z3.Implies(z3.And(q >= 0, q < S.z(n)), S.z(S.gt(value.at((q,)), 0))),
                          z3.Implies(z3.And(q >= 0, q + 1 < S.z(n)), S.z(S.lt(value.at((q,)), value.at((q + 1,)))))), 'requires')
        ctx.ghost_wave_sets.append({'self': self, 'value': value, 'ok': True})
        ctx.assumptions.add('callee contract:Spectrum.wave setter accepts exactly the positive strictly increasing grids (discharged against the body: Spectrum.wave.setter#body)')
        self.attrs['_wave'] = value
        ctx.write_event(self, 'setattr _wave')
        return None
    ok = ctx.fresh_bool('wave_grid_valid')
    ctx.__dict__.setdefault('ghost_wave_sets', []).append({'self': self, 'value': value, 'ok': ok})
    if not ctx.branch(ok):
        raise Raised('ValueError', 'invalid wavelength grid')
    self.attrs['_wave'] = value
    ctx.write_event(self, 'setattr _wave')
    return None


cws = contract('lentil.radiometry.Spectrum.wave.setter')
cws.call_model = wave_setter_model


def interp_value(ctx, sp, method, fill, x):
    mid = METHOD_ID.get(method, 9) if isinstance(method, str) else 9
    return INTERP(S.z(sp.attrs['_ghost_sid']), z3.IntVal(mid), S.zreal(fill), S.zreal(x))


def sample_call_model(ctx, env):
    """Abstract Spectrum.sample: pointwise interpolation INTERP(state, method, fill, x) of the spectrum as it
    is; the requested wavelength unit is recorded (ghost) - the caller must pass the spectrum's own unit."""
    self, wave = env['self'], env['wave']
    method, fill = env.get('method', 'linear'), env.get('fill_value', 0)
    wu = env.get('waveunit', 'nm')
    own = ctx.world.interp.getattr(ctx, self, 'waveunit')
    ctx.__dict__.setdefault('ghost_sample_calls', []).append({'self': self, 'waveunit': wu, 'own_unit': own, 'method': method, 'fill': fill})
    ctx.assumptions.add('abstract:lentil.radiometry.Spectrum.sample (scipy interp1d) as a pointwise function of the wavelength')
    if '_ghost_sid' not in self.attrs:
        self.attrs['_ghost_sid'] = ctx.fresh_int('sp.state')
    f = lambda x: interp_value(ctx, self, method, fill, x)
    if isinstance(wave, A.Gather):
        return wave.map(f)
    if isinstance(wave, Arr):
        return A.elementwise(ctx, f, [wave], dtype='float')
    if isinstance(wave, (PyList, tuple)):
        return A.elementwise(ctx, f, [A.as_array(ctx, wave)], dtype='float')
    return f(wave)


cs = contract('lentil.radiometry.Spectrum.sample')
cs.call_model = sample_call_model


def integrate_call_model(ctx, env):
    ctx.assumptions.add('abstract:lentil.radiometry.Spectrum.integrate at this call site')
    v = ctx.fresh_real('integral')
    ctx.__dict__.setdefault('ghost_integrate_calls', []).append(dict(env, out=v))
    return v


ci = contract('lentil.radiometry.Spectrum.integrate')
ci.call_model = integrate_call_model


# ---- Spectrum.integrate, trapezoid rule, on the real code (C15): closed-range sample selection, then the
# trapezoid sum of exactly the selected samples ----

def trapezoid_between(ctx, wave, value, lo, hi):
    """sum over k of [lo <= w[k] and w[k+1] <= hi] (w[k+1] - w[k]) (v[k] + v[k+1]) / 2 ; lo/hi None = no bound.
    (On a strictly increasing grid, samples k and k+1 both lie in [lo, hi] iff lo <= w[k] and w[k+1] <= hi.)"""
    n = wave.shape[0]

    def body(k):
        k1 = S.add(k, 1)
        trap = S.truediv(S.mul(S.sub(wave.at((k1,)), wave.at((k,))), S.add(value.at((k,)), value.at((k1,)))), 2)
        if lo is None and hi is None:
            return trap
        inside = S.and_(S.ge(wave.at((k,)), lo) if lo is not None else True, S.le(wave.at((k1,)), hi) if hi is not None else True)
        return S.ite(inside, trap, 0)
    return S.sigma(0, S.max_(S.sub(n, 1), 0), body)


def _integrate_contract(tag, with_range, method):
    c = contract('lentil.radiometry.Spectrum.integrate#%s' % tag, level='P')
    c.qualname = 'lentil.radiometry.Spectrum.integrate'
    c.tag = tag

    def params(ctx):
        sp = mk_spectrum(ctx, 's', pairwise=True)
        env = {'self': sp, 'start': None, 'end': None, 'method': method}
        if with_range == 'both':
            env['start'], env['end'] = ctx.fresh_real('start'), ctx.fresh_real('end')
        elif with_range == 'start':
            env['start'] = ctx.fresh_real('start')
        elif with_range == 'end':
            env['end'] = ctx.fresh_real('end')
        return env
    c.params = params
    c.modifies = set()
    if method != 'trapz':
        c.raises['ValueError'] = lambda ctx, env: z3.BoolVal(True)
        return c

    @c.post('trapezoid_sum_of_the_samples_inside_the_closed_range')
    def _(ctx, env0, env, out):
        sp = env0['self']
        w, v = sp.attrs['_wave'], sp.attrs['_value']
        want = trapezoid_between(ctx, w, v, env0['start'], env0['end'])
        oblige_equal(ctx, 'radiometry.Spectrum.integrate::trapezoid_over_closed_range[%s]' % tag, out.value, want)
        return None         # the frame (modifies = {}) states that the spectrum itself is not changed
    return c


INTEGRATE = []
for _tag, _rng, _m in [('trapz-full', None, 'trapz'), ('trapz-range', 'both', 'trapz'), ('trapz-from', 'start', 'trapz'),
                       ('trapz-to', 'end', 'trapz'), ('unknown-method', 'both', 'trapezoid')]:
    _integrate_contract(_tag, _rng, _m)
    INTEGRATE.append('lentil.radiometry.Spectrum.integrate#' + _tag)


def method(ctx, sp, name):
    return sp.cls.find(ctx.world.repo, name)


def spectrum_to_lemmas():
    """C14: Spectrum.to on the real code, one lemma per (wavelength unit, value unit) start state."""
    out = []

    def run_to(ctx, sp, *units):
        ctx.world.interp.call_function(ctx, method(ctx, sp, 'to'), [sp] + list(units), {})

    def clone(ctx, sp):
        # Spectrum.to rebinds wave / value (no in-place array writes), so sharing the arrays is safe
        o = Obj(sp.cls, dict(sp.attrs))
        return o

    def same_state(ctx, name, a, b, n):
        i, = ints(ctx, 'i')
        wa, va = A.as_array(ctx, a.attrs['_wave']), A.as_array(ctx, a.attrs['_value'])
        wb, vb = A.as_array(ctx, b.attrs['_wave']), A.as_array(ctx, b.attrs['_value'])
        g = ctx.world.interp.getattr
        ctx.oblige(name + '.units', g(ctx, a, 'waveunit') == g(ctx, b, 'waveunit') and g(ctx, a, 'valueunit') == g(ctx, b, 'valueunit'))
        ctx.oblige(name + '.lengths', z3.And(S.z(S.eq(wa.shape[0], n)), S.z(S.eq(wb.shape[0], n)), S.z(S.eq(va.shape[0], n)), S.z(S.eq(vb.shape[0], n))))
        with_hyp_(ctx, [i >= 0, i < S.z(n)], lambda: ctx.oblige(name + '.samples', S.and_(S.eq(wa.at((i,)), wb.at((i,))), S.eq(va.at((i,)), vb.at((i,))))))

    PRE = ['import json, warnings', 'warnings.simplefilter("ignore")', 'import numpy as np', 'import lentil.radiometry as r',
           'SI = {"m": 1.0, "um": 1e-6, "nm": 1e-9, "angstrom": 1e-10}',
           'w = np.array([1.0, 2.0, 3.5, 4.0, 7.25]); v = np.array([1.0, 3.0, 2.0, 5.0, 0.5])',
           'def close(a, b): return np.shape(a) == np.shape(b) and bool(np.allclose(a, b, rtol=1e-12, atol=0))',
           'def trap(x, y): return float(np.sum(np.diff(x) * (y[1:] + y[:-1]) / 2))', 'obs = {}']

    def make_wave(u, vu, u2):
        def lemma(ctx):
            ctx.grid_validation = 'prove'
            g = ctx.world.interp.getattr
            tag = ctx.grid_tag = '%s,%s->%s' % (u, vu, u2)
            sp = mk_spectrum(ctx, 's', waveunit=u, valueunit=vu)
            w0, v0 = sp.attrs['_wave'], sp.attrs['_value']
            n = w0.shape[0]
            run_to(ctx, sp, u2)
            w1, v1 = A.as_array(ctx, sp.attrs['_wave']), A.as_array(ctx, sp.attrs['_value'])
            f = SI[u] / SI[u2]
            i, = ints(ctx, 'i')
            inr = [i >= 0, i < S.z(n)]
            ctx.oblige('C14::Spectrum.to.waveunit_updated[%s]' % tag, g(ctx, sp, 'waveunit') == g(ctx, unit_obj(ctx, u2), 'name'))
            ctx.oblige('C14::Spectrum.to.valueunit_kept[%s]' % tag, g(ctx, sp, 'valueunit') == vu)
            ctx.oblige('C14::Spectrum.to.lengths[%s]' % tag, z3.And(S.z(S.eq(w1.shape[0], n)), S.z(S.eq(v1.shape[0], n))))
            with_hyp_(ctx, inr, lambda: ctx.oblige('C14::Spectrum.to.wave_scaled_by_unit_ratio[%s]' % tag,
                                                   S.eq(w1.at((i,)), S.mul(w0.at((i,)), f))))
            if vu is None:
                with_hyp_(ctx, inr, lambda: ctx.oblige('C14::Spectrum.to.unitless_values_kept[%s]' % tag,
                                                       S.eq(v1.at((i,)), v0.at((i,)))))
            else:
                with_hyp_(ctx, inr, lambda: ctx.oblige('C14::Spectrum.to.density_values_divided_by_ratio[%s]' % tag,
                                                       S.eq(v1.at((i,)), S.truediv(v0.at((i,)), f))))
                oblige_equal(ctx, 'C14::Spectrum.to.integral_preserved[%s]' % tag,
                             trapezoid_between(ctx, w1, v1, None, None), trapezoid_between(ctx, w0, v0, None, None))
            # and back: the round trip restores wave and value
            run_to(ctx, sp, u)
            w2, v2 = A.as_array(ctx, sp.attrs['_wave']), A.as_array(ctx, sp.attrs['_value'])
            with_hyp_(ctx, inr, lambda: ctx.oblige('C14::Spectrum.to.round_trip_restores[%s]' % tag,
                                                   S.and_(S.eq(w2.at((i,)), w0.at((i,))), S.eq(v2.at((i,)), v0.at((i,))))))
            if u2 != WAVE_UNITS[0]:
                return
            # refusals (once per start state)
            sp = mk_spectrum(ctx, 's', waveunit=u, valueunit=vu)
            if vu is None:
                try:
                    run_to(ctx, sp, 'flam')
                    ctx.oblige('C14::Spectrum.to.unitless_to_flux_refused[%s]' % u, False)
                except Raised as r:
                    ctx.oblige('C14::Spectrum.to.unitless_to_flux_refused[%s]' % u, r.exc == 'TypeError')
            try:
                run_to(ctx, sp, 'parsec')
                ctx.oblige('C14::Spectrum.to.unknown_unit_refused[%s,%s]' % (u, vu), False)
            except Raised as r:
                ctx.oblige('C14::Spectrum.to.unknown_unit_refused[%s,%s]' % (u, vu), r.exc == 'ValueError')

        def native_replay(obname, model):
            """The same conversion and round trip on the real class with a fixed non-uniform spectrum."""
            return '\n'.join(PRE + [
                's = r.Spectrum(w.copy(), v.copy(), waveunit=%r, valueunit=%r)' % (u, vu),
                'f = SI[%r] / SI[%r]' % (u, u2),
                's.to(%r)' % u2,
                'obs["wave"] = close(s.wave, w * f)',
                'obs["value"] = close(s.value, v / f)' if vu else 'obs["value"] = close(s.value, v)',
                'obs["integral"] = close(trap(s.wave, s.value), trap(w, v))' if vu else 'pass',
                'obs["units"] = (s.waveunit == r.Unit(%r).name and s.valueunit == %r)' % (u2, vu),
                's.to(%r)' % u,
                'obs["round_trip"] = close(s.wave, w) and close(s.value, v)',
                'print(json.dumps({"violated": not all(obs.values()), "clauses_holding": obs}))'])
        lemma.native_replay = native_replay
        return lemma

    def make_flux(u, vu, vu2):
        def lemma(ctx):
            ctx.grid_validation = 'prove'
            g = ctx.world.interp.getattr
            tag = ctx.grid_tag = '%s,%s->%s' % (u, vu, vu2)
            sp = mk_spectrum(ctx, 's', waveunit=u, valueunit=vu)
            w0, v0 = sp.attrs['_wave'], sp.attrs['_value']
            n = w0.shape[0]
            run_to(ctx, sp, vu2)
            v1 = A.as_array(ctx, sp.attrs['_value'])
            i, = ints(ctx, 'i')
            inr = [i >= 0, i < S.z(n)]
            ctx.oblige('C14::Spectrum.to.flux.wave_untouched[%s]' % tag, sp.attrs['_wave'] is w0 and g(ctx, sp, 'waveunit') == u)
            ctx.oblige('C14::Spectrum.to.flux.valueunit_updated[%s]' % tag, g(ctx, sp, 'valueunit') == vu2)
            # the stored value, per metre, is the flux-unit conversion of the old value per metre at the
            # wavelength in metres (the unit classes' own table is proved consistent in C14::flux_unit_table)
            m = SI[u]
            want = lambda: S.mul(flux_to(ctx, vu, S.truediv(v0.at((i,)), m), vu2, S.mul(w0.at((i,)), m)), m)
            with_hyp_(ctx, inr, lambda: ctx.oblige('C14::Spectrum.to.flux.converted_in_si[%s]' % tag, S.eq(v1.at((i,)), want())))
            run_to(ctx, sp, vu)
            v2 = A.as_array(ctx, sp.attrs['_value'])
            with_hyp_(ctx, inr, lambda: ctx.oblige('C14::Spectrum.to.flux.round_trip_restores[%s]' % tag, S.eq(v2.at((i,)), v0.at((i,)))))

        def native_replay(obname, model):
            return '\n'.join(PRE + [
                's = r.Spectrum(w.copy(), v.copy(), waveunit=%r, valueunit=%r)' % (u, vu),
                'm = SI[%r]' % u,
                'want = r.Unit(%r).to(v / m, %r, w * m) * m' % (vu, vu2),
                's.to(%r)' % vu2,
                'obs["wave_untouched"] = close(s.wave, w) and s.waveunit == %r' % u,
                'obs["converted_in_si"] = close(s.value, want) and s.valueunit == %r' % vu2,
                's.to(%r)' % vu,
                'obs["round_trip"] = close(s.value, v)',
                'print(json.dumps({"violated": not all(obs.values()), "clauses_holding": obs}))'])
        lemma.native_replay = native_replay
        return lemma

    def make_both(u, vu, u2, vu2):
        def lemma(ctx):
            # simultaneous conversion: to(a, b) is to(a) followed by to(b), in either argument order
            ctx.grid_validation = 'prove'
            for order in ((u2, vu2), (vu2, u2)):
                tag2 = ctx.grid_tag = '%s,%s->(%s,%s)' % (u, vu, order[0], order[1])
                a = mk_spectrum(ctx, 's', waveunit=u, valueunit=vu)
                n = a.attrs['_wave'].shape[0]
                b = clone(ctx, a)
                run_to(ctx, a, *order)
                run_to(ctx, b, order[0])
                run_to(ctx, b, order[1])
                same_state(ctx, 'C14::Spectrum.to.two_units_at_once_is_one_after_the_other[%s]' % tag2, a, b, n)

        def native_replay(obname, model):
            lines = list(PRE)
            for k, order in enumerate(((u2, vu2), (vu2, u2))):
                lines += ['a = r.Spectrum(w.copy(), v.copy(), waveunit=%r, valueunit=%r)' % (u, vu),
                          'b = r.Spectrum(w.copy(), v.copy(), waveunit=%r, valueunit=%r)' % (u, vu),
                          'a.to(%r, %r)' % order, 'b.to(%r)' % order[0], 'b.to(%r)' % order[1],
                          'obs["order%d"] = close(a.wave, b.wave) and close(a.value, b.value) and a.waveunit == b.waveunit and a.valueunit == b.valueunit' % k]
            lines.append('print(json.dumps({"violated": not all(obs.values()), "clauses_holding": obs}))')
            return '\n'.join(lines)
        lemma.native_replay = native_replay
        return lemma
    for u in WAVE_UNITS:
        for vu in [None] + FLUX_UNITS:
            for u2 in WAVE_UNITS:
                out.append(('C14::Spectrum.to[%s,%s->%s]' % (u, vu, u2), make_wave(u, vu, u2)))
            if vu is None:
                continue
            for vu2 in FLUX_UNITS:
                out.append(('C14::Spectrum.to[%s,%s->%s]' % (u, vu, vu2), make_flux(u, vu, vu2)))
                for u2 in WAVE_UNITS:
                    out.append(('C14::Spectrum.to[%s,%s->%s+%s]' % (u, vu, u2, vu2), make_both(u, vu, u2, vu2)))
    return out


WAVE_ALIASES_CANON = {}


def spectrum_lemmas():
    out = []

    def ufunc_scalar(ctx):
        """Operations with a scalar act element-wise on the unchanged wavelength grid and return a new
        spectrum in the same units; the operand is not written."""
        interp = ctx.world.interp
        for opname in ('add', 'subtract', 'multiply', 'divide'):
            sp = mk_spectrum(ctx, 'a')
            k = ctx.fresh_real('k')
            if opname == 'divide':
                ctx.assume(k != 0)
            n0 = len(ctx.events)
            try:
                res = interp.call_function(ctx, method(ctx, sp, opname), [sp, k], {})
            except Raised as r:
                # the result grid is the operand's (valid) grid: a refusal can only come from the abstract validity
                continue
            n = sp.attrs['_wave'].shape[0]
            i, = ints(ctx, 'i')
            f = {'add': S.add, 'subtract': S.sub, 'multiply': S.mul, 'divide': S.truediv}[opname]
            hyp = z3.And(i >= 0, i < S.z(n))
            ctx.oblige('C13::Spectrum.%s(scalar).elementwise' % opname, z3.Implies(hyp, z3.And(
                S.z(S.eq(res.attrs['_value'].at((i,)), f(sp.attrs['_value'].at((i,)), k))),
                S.z(S.eq(res.attrs['_wave'].at((i,)), sp.attrs['_wave'].at((i,)))))))
            ctx.oblige('C13::Spectrum.%s(scalar).new_object_same_units' % opname,
                       res is not sp and interp.getattr(ctx, res, 'waveunit') == 'nm' and interp.getattr(ctx, res, 'valueunit') is None)
            ctx.oblige('C13::Spectrum.%s(scalar).operand_untouched' % opname,
                       not [d for (t, d) in ctx.events[n0:] if t is sp or t is sp.attrs['_wave'].cell or t is sp.attrs['_value'].cell])
    out.append(('C13::scalar_operations', ufunc_scalar))

    def interp_common(units):
        u1, u2 = units

        def lemma(ctx):
            """_interp_common(s1, s2): a uniform grid from the smaller to the larger end of the two ranges with
            step (max - min)/ceil((max - min)/d) <= d (d = finest spacing of either operand, or the requested
            sampling); each operand contributes its interpolated value where the grid point lies inside its
            range and the fill value elsewhere; both operands are sampled in the first operand's unit, an operand
            given in another unit is converted on a COPY (the caller's object is not written)."""
            interp = ctx.world.interp
            s1, s2 = mk_spectrum(ctx, 's1', u1), mk_spectrum(ctx, 's2', u2)
            fill = ctx.fresh_real('fill')
            func = ctx.world.repo.function('lentil.radiometry._interp_common')
            n0 = len(ctx.events)
            try:
                grid, v1, v2 = interp.call_function(ctx, func, [s1, s2, 'min', 'linear', fill], {})
            except Raised as r:
                ctx.oblige('C13::_interp_common[%s,%s].refusal_only_from_grid_validation' % units,
                           r.exc == 'ValueError' and bool(ctx.__dict__.get('ghost_wave_sets')))
                return
            calls = ctx.__dict__.get('ghost_sample_calls', [])
            ctx.oblige('C13::_interp_common[%s,%s].two_sample_calls' % units, len(calls) == 2)
            for k, c_ in enumerate(calls):
                ctx.oblige('C13::_interp_common[%s,%s].operand_%d_sampled_in_its_own_unit' % (u1, u2, k + 1),
                           c_['waveunit'] == c_['own_unit'] and c_['own_unit'] == u1,
                           info={'requested': str(c_['waveunit']), 'own': str(c_['own_unit'])})
            touched = [d for (t, d) in ctx.events[n0:] if t is s2 or t is s1 or t is s2.attrs['_wave'].cell or t is s2.attrs['_value'].cell]
            ctx.oblige('C13::_interp_common[%s,%s].operands_not_written' % units, not touched, info={'writes': touched[:3]})
            if len(calls) != 2:
                return
            w1 = s1.attrs['_wave']
            w2 = calls[1]['self'].attrs['_wave']          # s2 itself, or its converted copy
            lo = S.min_(ctx.ghost_min[id(w1.cell)] if False else _amin(ctx, w1), _amin(ctx, w2))
            hi = S.max_(_amax(ctx, w1), _amax(ctx, w2))
            num = grid.shape[0]
            i, = ints(ctx, 'i')
            hyp = [i >= 0, S.z(S.lt(i, num))]
            step = S.truediv(S.sub(hi, lo), S.sub(num, 1))
            with_hyp_(ctx, hyp + [S.z(S.gt(num, 1))], lambda: ctx.oblige(
                'C13::_interp_common[%s,%s].uniform_grid_spanning_the_union' % units,
                S.eq(grid.at((i,)), S.add(lo, S.mul(step, i)))))
            # "at the finer sampling": the grid step does not exceed any spacing of either operand
            q, = ints(ctx, 'q')
            for k, ww in enumerate((w1, w2)):
                nn = ww.shape[0]
                gap = S.sub(ww.at((S.add(q, 1),)), ww.at((q,)))
                with_hyp_(ctx, [q >= 0, S.z(S.lt(S.add(q, 1), nn)), S.z(S.gt(num, 1))], lambda gap=gap, k=k: ctx.oblige(
                    'C13::_interp_common[%s,%s].step_at_most_every_spacing_of_operand_%d' % (u1, u2, k + 1), S.le(step, gap)))
            for k, (vv, sp, ww) in enumerate(((v1, calls[0]['self'], w1), (v2, calls[1]['self'], w2))):
                g = grid.at((i,))
                inside = S.and_(S.ge(g, _amin(ctx, ww)), S.le(g, _amax(ctx, ww)))
                want = S.ite(inside, interp_value(ctx, sp, 'linear', fill, g), fill)
                with_hyp_(ctx, hyp, lambda vv=vv, want=want, k=k: ctx.oblige(
                    'C13::_interp_common[%s,%s].operand_%d_interpolated_inside_fill_outside' % (u1, u2, k + 1),
                    S.eq(vv.at((i,)), want)))
        return ('C13::_interp_common[%s,%s]' % units, lemma)
    out.append(interp_common(('nm', 'nm')))
    out.append(interp_common(('um', 'um')))
    out.append(interp_common(('nm', 'um')))
    out.append(interp_common(('um', 'angstrom')))

    def grid_step(ctx):
        """num = ceil((max - min)/d) intervals: the step (max - min)/num does not exceed the requested d."""
        lo, hi, d = ctx.fresh_real('lo'), ctx.fresh_real('hi'), ctx.fresh_real('d')
        ctx.assume(z3.And(hi > lo, d > 0))
        num = S.ceil_(S.truediv(S.sub(hi, lo), d))
        ctx.oblige('C13::common_grid.step_at_most_requested_sampling', z3.And(S.z(S.ge(num, 1)), S.z(S.le(S.truediv(S.sub(hi, lo), num), d))))
    out.append(('C13::common_grid_step', grid_step))

    def binary_ops(ctx):
        """A binary operation between two spectra applies the operator to the two interpolated value vectors
        on the common grid and returns a new spectrum in the first operand's units; add / multiply are
        symmetric in their operands (commutative) because the common grid is."""
        interp = ctx.world.interp
        s1, s2 = mk_spectrum(ctx, 's1', 'nm'), mk_spectrum(ctx, 's2', 'nm')
        for opname in ('add', 'multiply'):
            ctx.ghost_sample_calls = []
            try:
                r12 = interp.call_function(ctx, method(ctx, s1, opname), [s1, s2], {})
                r21 = interp.call_function(ctx, method(ctx, s2, opname), [s2, s1], {})
            except Raised:
                continue
            ctx.oblige('C13::Spectrum.%s.goes_through_the_common_grid' % opname, len(ctx.ghost_sample_calls) == 4,
                       info={'sample_calls': len(ctx.ghost_sample_calls)})
            i, = ints(ctx, 'i')
            n = r12.attrs['_wave'].shape[0]
            from lvc.prove import oblige_equal
            with_hyp_(ctx, [i >= 0, S.z(S.lt(i, n)), S.z(S.eq(n, r21.attrs['_wave'].shape[0]))], lambda: (
                oblige_equal(ctx, 'C13::Spectrum.%s.commutative.value' % opname, r12.attrs['_value'].at((i,)), r21.attrs['_value'].at((i,))),
                oblige_equal(ctx, 'C13::Spectrum.%s.commutative.wave' % opname, r12.attrs['_wave'].at((i,)), r21.attrs['_wave'].at((i,)))))
            ctx.oblige('C13::Spectrum.%s.new_object' % opname, r12 is not s1 and r12 is not s2)
    out.append(('C13::binary_operations', binary_ops))

    def mixed_units_use_the_grid(ctx):
        """Spectra whose wavelength NUMBERS coincide but whose units differ are still combined through the
        common grid (never index by index)."""
        interp = ctx.world.interp
        n = ctx.fresh_int('n')
        ctx.assume(n >= 2)
        s1, s2 = mk_spectrum(ctx, 's1', 'nm', n=n), mk_spectrum(ctx, 's2', 'angstrom', n=n)
        i, = ints(ctx, 'i')
        ctx.assume(z3.ForAll([i], z3.Implies(z3.And(i >= 0, i < n), S.z(s1.attrs['_wave'].at((i,))) == S.z(s2.attrs['_wave'].at((i,))))), axiom=True)
        ctx.ghost_sample_calls = []
        try:
            interp.call_function(ctx, method(ctx, s1, 'add'), [s1, s2], {})
        except Raised:
            return
        calls = ctx.ghost_sample_calls
        ctx.oblige('C13::equal_numbers_in_different_units_go_through_the_common_grid',
                   len(calls) == 2 and all(c_['waveunit'] == 'nm' and c_['own_unit'] == 'nm' for c_ in calls),
                   info={'sample_calls': len(calls)})
    out.append(('C13::mixed_units_use_the_grid', mixed_units_use_the_grid))

    def sample_builds_a_fresh_interpolator(ctx):
        """Spectrum.sample builds its interpolator from the current wave / value with the requested method and
        fill value on every call (no state carried from one call to the next)."""
        interp = ctx.world.interp
        sp = mk_spectrum(ctx, 's')
        x = array(ctx, 'x', (ctx.fresh_int('nx'),), 'float')
        ctx.no_model = {'lentil.radiometry.Spectrum.sample'}
        f = method(ctx, sp, 'sample')
        interp.call_function(ctx, f, [sp, x], {'method': 'linear', 'fill_value': 0, 'waveunit': 'nm'})
        interp.call_function(ctx, f, [sp, x], {'method': 'cubic', 'fill_value': 1, 'waveunit': 'nm'})
        made = ctx.__dict__.get('ghost_interp1d', [])
        used = ctx.__dict__.get('ghost_interp1d_evals', [])
        ok = len(used) == 2 and len(made) >= 2 and used[0] is not used[1] \
            and used[0].kind == 'linear' and used[1].kind == 'cubic' \
            and all(u.x.cell is sp.attrs['_wave'].cell and u.y.cell is sp.attrs['_value'].cell for u in used)
        ctx.oblige('C13::Spectrum.sample.fresh_interpolator_with_the_requested_method', ok,
                   info={'made': len(made), 'kinds': [str(u.kind) for u in used]})
        if len(used) == 2:
            ctx.oblige('C13::Spectrum.sample.fill_value_passed', S.eq(used[0].fill, 0) is not False and S.eq(used[1].fill, 1) is not False)
    out.append(('C13::sample_is_stateless', sample_builds_a_fresh_interpolator))
    return out


def with_hyp_(ctx, hyps, fn):
    from lvc.prove import with_hyp
    return with_hyp(ctx, hyps, fn)


def _amin(ctx, a):
    key = ('min', a.cell.id)
    cache = ctx.__dict__.setdefault('_minmax', {})
    if key not in cache:
        cache[key] = L._max_symbolic(ctx, a, 'min') if S.is_z3(a.shape[0]) else L.np_min(ctx, a)
    return cache[key]


def _amax(ctx, a):
    key = ('max', a.cell.id)
    cache = ctx.__dict__.setdefault('_minmax', {})
    if key not in cache:
        cache[key] = L._max_symbolic(ctx, a, 'max') if S.is_z3(a.shape[0]) else L.np_max(ctx, a)
    return cache[key]


# =======================================================================================
# C15: resizing operations keep the spectrum well-formed; binning


_NATIVE_PRE = ['import json, warnings', 'warnings.simplefilter("ignore")', 'import numpy as np', 'from lentil.radiometry import Spectrum',
               'rng = np.random.default_rng(7)', 'obs = {}', 'bad = []']


def _native(lines):
    return '\n'.join(_NATIVE_PRE + lines + ['print(json.dumps({"violated": bool(bad), "failing_cases": bad[:3]}))'])


def native_trim(obname, model):
    """trim on 200 random spectra and tolerances against a plain numpy statement of the clause."""
    return _native([
        'for t in range(200):',
        '    n = int(rng.integers(2, 9)); w = np.cumsum(rng.uniform(0.5, 3, n)) + 400; v = rng.uniform(0, 1, n) * (rng.uniform(size=n) > 0.3)',
        '    tol = float(rng.choice([0.0, 1e-4, 0.2, 0.5, 0.9]))',
        '    s = Spectrum(w.copy(), v.copy(), "nm")',
        '    if not v.any():',
        '        s.trim(tol); ok = np.array_equal(s.wave, w) and np.array_equal(s.value, v)',
        '    else:',
        '        idx = np.where(v / v.max() > tol)[0]; f, l = idx[0], idx[-1]',
        '        s.trim(tol); ok = np.array_equal(s.wave, w[f:l + 1]) and np.array_equal(s.value, v[f:l + 1])',
        '    if not ok: bad.append({"wave": w.tolist(), "value": v.tolist(), "tol": tol, "kept": np.asarray(s.wave).tolist()})'])


def native_crop(obname, model):
    return _native([
        'for t in range(300):',
        '    n = int(rng.integers(2, 9)); w = np.cumsum(rng.uniform(0.5, 3, n)) + 400; v = rng.uniform(0, 1, n)',
        '    i, j = sorted(rng.integers(0, n, 2)); eps = rng.choice([0.0, 1e-9, -1e-9], 2)',
        '    lo, hi = w[i] + eps[0], w[j] + eps[1]; keep = (w >= lo) & (w <= hi)',
        '    if keep.sum() < 1: continue',
        '    s = Spectrum(w.copy(), v.copy(), "nm"); s.crop(lo, hi)',
        '    if not (np.array_equal(s.wave, w[keep]) and np.array_equal(s.value, v[keep])):',
        '        bad.append({"wave": w.tolist(), "lo": float(lo), "hi": float(hi), "kept": np.asarray(s.wave).tolist()})'])


def native_pad(obname, model):
    return _native([
        'for t in range(200):',
        '    n = int(rng.integers(2, 9)); w = np.cumsum(rng.uniform(0.5, 3, n)) + 400; v = rng.uniform(0, 1, n)',
        '    lo, hi, d = w[0] - rng.uniform(0.1, 9), w[-1] + rng.uniform(0.1, 9), rng.uniform(0.4, 2.5); a, b = rng.uniform(-1, 1, 2)',
        '    s = Spectrum(w.copy(), v.copy(), "nm"); s.pad((lo, hi), sampling=d, values=(a, b))',
        '    nl = int(np.ceil((w[0] - lo) / d)); nr = int(np.ceil((hi - w[-1]) / d))',
        '    ok = s.wave.shape == s.value.shape == (nl + n + nr,) and np.array_equal(s.wave[nl:nl + n], w) and np.array_equal(s.value[nl:nl + n], v)',
        '    ok = ok and np.all(s.value[:nl] == a) and np.all(s.value[nl + n:] == b) and np.all(np.diff(s.wave) > 0) and np.isclose(s.wave[0], lo) and np.isclose(s.wave[-1], hi)',
        '    if not ok: bad.append({"wave": w.tolist(), "lo": float(lo), "hi": float(hi), "sampling": float(d), "got_wave": np.asarray(s.wave).tolist()[:12]})'])


def c15_lemmas():
    out = []

    def state(sp):
        return (sp.attrs['_wave'], sp.attrs['_value'])

    def resample_wf(ctx):
        """resample either succeeds (new grid, one sampled value per wavelength, new unit) or is refused by the
        grid validation and then leaves wave AND value exactly as they were."""
        interp = ctx.world.interp
        sp = mk_spectrum(ctx, 's')
        m = ctx.fresh_int('m')
        ctx.assume(m >= 1)
        new = array(ctx, 'new_wave', (m,), 'float')
        w0, v0 = state(sp)
        try:
            interp.call_function(ctx, method(ctx, sp, 'resample'), [sp, new], {'waveunit': 'nm'})
        except Raised as r:
            ctx.oblige('C15::Spectrum.resample.refused_grid_leaves_wave_and_value_untouched',
                       r.exc == 'ValueError' and sp.attrs['_wave'] is w0 and sp.attrs['_value'] is v0,
                       info={'exc': r.exc, 'value_replaced': sp.attrs['_value'] is not v0})
            return
        w1, v1 = state(sp)
        sets = [g for g in ctx.__dict__.get('ghost_wave_sets', []) if g['self'] is sp]
        ctx.oblige('C15::Spectrum.resample.stored_grid_passed_the_validation', bool(sets) and sets[-1]['value'] is w1, 'structure',
                   info={'validated_grids': len(sets)})
        ctx.oblige('C15::Spectrum.resample.one_value_per_wavelength',
                   z3.And(S.z(S.eq(w1.shape[0], m)), S.z(S.eq(A.as_array(ctx, v1).shape[0], m))))
        i, = ints(ctx, 'i')
        with_hyp_(ctx, [i >= 0, i < m], lambda: ctx.oblige('C15::Spectrum.resample.grid_is_the_requested_one', S.eq(w1.at((i,)), new.at((i,)))))
    out.append(('C15::resample', resample_wf))

    def append_wf(ctx):
        """In-place append either extends wave and value together or, when refused, leaves both untouched."""
        interp = ctx.world.interp
        n = ctx.fresh_int('n')
        ctx.assume(n >= 2)
        a, b = mk_spectrum(ctx, 'a', n=n), mk_spectrum(ctx, 'b', n=n)
        w0, v0 = state(a)
        try:
            interp.call_function(ctx, method(ctx, a, 'append'), [a, b], {})
        except Raised as r:
            ctx.oblige('C15::Spectrum.append.refusal_leaves_wave_and_value_untouched',
                       r.exc == 'ValueError' and a.attrs['_wave'] is w0 and a.attrs['_value'] is v0,
                       info={'exc': r.exc, 'value_replaced': a.attrs['_value'] is not v0, 'wave_replaced': a.attrs['_wave'] is not w0})
            return
        w1, v1 = state(a)
        # "always leaves a strictly increasing grid": the grid now stored is one the validating setter accepted
        # (it accepts exactly the positive strictly increasing grids: Spectrum.wave.setter#body)
        sets = [g for g in ctx.__dict__.get('ghost_wave_sets', []) if g['self'] is a]
        ctx.oblige('C15::Spectrum.append.stored_grid_passed_the_validation', bool(sets) and sets[-1]['value'] is w1, 'structure',
                   info={'validated_grids': len(sets)})
        ctx.oblige('C15::Spectrum.append.one_value_per_wavelength',
                   z3.And(S.z(S.eq(w1.shape[0], S.mul(2, n))), S.z(S.eq(v1.shape[0], S.mul(2, n)))))
        i, = ints(ctx, 'i')
        with_hyp_(ctx, [i >= 0, i < n], lambda: (
            ctx.oblige('C15::Spectrum.append.retained_samples_unchanged', S.and_(S.eq(w1.at((i,)), w0.at((i,))), S.eq(v1.at((i,)), v0.at((i,))))),
            ctx.oblige('C15::Spectrum.append.appended_samples', S.and_(S.eq(w1.at((S.add(i, n),)), b.attrs['_wave'].at((i,))),
                                                                     S.eq(v1.at((S.add(i, n),)), b.attrs['_value'].at((i,)))))))
    out.append(('C15::append', append_wf))

    def bin_trapz(ends, unit):
        def lemma(ctx):
            """bin(centres, 'trapz') for three centres: edges at the mid-points (and half a step beyond the ends, or
            the end centres themselves), each bin = (f_left + f_right)/2 x width with f sampled IN THE REQUESTED UNIT;
            with power preservation the bins are scaled so that they sum to integrate(min, max)."""
            interp = ctx.world.interp
            sp = mk_spectrum(ctx, 's', unit)
            c0, c1, c2 = [ctx.fresh_real('c%d' % k) for k in range(3)]
            ctx.assume(z3.And(c0 > 0, c0 < c1, c1 < c2))
            centres = Arr.from_list([c0, c1, c2])
            preserve = ctx.branch(ctx.fresh_bool('preserve_power'))
            bins = interp.call_function(ctx, method(ctx, sp, 'bin'), [sp, centres],
                                        {'interp_method': 'trapz', 'ends': ends, 'preserve_power': preserve, 'waveunit': unit})
            calls = ctx.__dict__.get('ghost_sample_calls', [])
            tag = '%s,%s' % (ends, unit)
            ctx.oblige('C15::Spectrum.bin[%s].sampled_in_the_requested_unit' % tag,
                       len(calls) == 1 and calls[0]['waveunit'] == unit and calls[0]['own_unit'] == unit,
                       info={'calls': [(str(c_['waveunit']), str(c_['own_unit'])) for c_ in calls]})
            d0, d1 = S.truediv(S.sub(c1, c0), 2), S.truediv(S.sub(c2, c1), 2)
            if ends == 'symmetric':
                x = [S.sub(c0, d0), S.add(c0, d0), S.add(c1, d1), S.add(c2, d1)]
            else:
                x = [c0, S.add(c0, d0), S.add(c1, d1), c2]
            f = [interp_value(ctx, sp, 'linear', 0, xv) for xv in x]
            raw = [S.mul(S.truediv(S.add(f[k], f[k + 1]), 2), S.sub(x[k + 1], x[k])) for k in range(3)]
            ctx.oblige('C15::Spectrum.bin[%s].one_value_per_centre' % tag, bins.shape[0] == 3)
            if not preserve:
                for k in range(3):
                    ctx.oblige('C15::Spectrum.bin[%s].trapezoid_over_the_bin_edges[%d]' % (tag, k), S.eq(bins.at((k,)), raw[k]))
            else:
                ic = ctx.__dict__.get('ghost_integrate_calls', [])
                ctx.oblige('C15::Spectrum.bin[%s].normalised_against_the_same_rule' % tag,
                           len(ic) == 1 and ic[0].get('method') == 'trapz', info={'method': str(ic[0].get('method')) if ic else None})
                if len(ic) == 1:
                    tot = S.add(S.add(raw[0], raw[1]), raw[2])
                    ctx.oblige('C15::Spectrum.bin[%s].integrates_over_the_span_of_the_centres' % tag,
                               S.and_(S.eq(ic[0].get('start'), c0), S.eq(ic[0].get('end'), c2)))
                    got = S.add(S.add(bins.at((0,)), bins.at((1,))), bins.at((2,)))
                    ctx.oblige('C15::Spectrum.bin[%s].bins_sum_to_the_integral' % tag,
                               z3.Implies(S.z(S.ne(tot, 0)), S.z(S.eq(got, ic[0]['out']))))
        return ('C15::bin[%s,%s]' % (ends, unit), lemma)
    out += [bin_trapz('symmetric', 'nm'), bin_trapz('inside', 'nm'), bin_trapz('symmetric', 'um')]

    def trapezoid_rule(ctx):
        """Properties of the trapezoid sum used by integrate / np.trapz (library contract sum_k dx_k (y_k + y_k+1)/2):
        linear in the values, additive over intervals that meet at a sample point, exact for linear data."""
        n = ctx.fresh_int('n')
        ctx.assume(n >= 3)
        x = array(ctx, 'x', (n,), 'float')
        y, z_ = array(ctx, 'y', (n,), 'float'), array(ctx, 'z', (n,), 'float')
        a, b = ctx.fresh_real('a'), ctx.fresh_real('b')
        from lvc.prove import oblige_equal
        lin = A.elementwise(ctx, lambda u, v: S.add(S.mul(a, u), S.mul(b, v)), [y, z_], dtype='float')
        oblige_equal(ctx, 'C15::trapz.linear_in_the_values', L.np_trapz(ctx, lin, x),
                     S.add(S.mul(L.np_trapz(ctx, y, x), a), S.mul(L.np_trapz(ctx, z_, x), b)))
        # exact for y = p x + q on one interval: (x1 - x0)(y0 + y1)/2 = p (x1^2 - x0^2)/2 + q (x1 - x0)
        p, q, x0, x1 = [ctx.fresh_real(k) for k in ('p', 'q', 'x0', 'x1')]
        lhs = S.truediv(S.mul(S.sub(x1, x0), S.add(S.add(S.mul(p, x0), q), S.add(S.mul(p, x1), q))), 2)
        rhs = S.add(S.truediv(S.mul(p, S.sub(S.mul(x1, x1), S.mul(x0, x0))), 2), S.mul(q, S.sub(x1, x0)))
        ctx.oblige('C15::trapz.exact_for_linear_data', S.eq(lhs, rhs))
    out.append(('C15::trapezoid_rule', trapezoid_rule))

    def integrate_additive_and_linear(ctx):
        """Over the postcondition of Spectrum.integrate (trapezoid_between): for a <= b <= c with b a sample
        point, I(a,b) + I(b,c) = I(a,c); and I is linear in the values (same grid)."""
        sp = mk_spectrum(ctx, 's', pairwise=True)
        w, v = sp.attrs['_wave'], sp.attrs['_value']
        n = w.shape[0]
        a, c = ctx.fresh_real('a'), ctx.fresh_real('c')
        kb = ctx.fresh_int('kb')
        ctx.assume(z3.And(kb >= 0, kb < S.z(n)))
        b = w.at((kb,))
        ctx.assume(z3.And(a <= S.z(b), S.z(b) <= c))
        oblige_equal(ctx, 'C15::integrate.additive_over_adjacent_intervals_meeting_at_a_sample',
                     S.add(trapezoid_between(ctx, w, v, a, b), trapezoid_between(ctx, w, v, b, c)),
                     trapezoid_between(ctx, w, v, a, c))
        v2 = array(ctx, 'v2', (n,), 'float')
        p, q = ctx.fresh_real('p'), ctx.fresh_real('q')
        lin = A.elementwise(ctx, lambda x, y: S.add(S.mul(p, x), S.mul(q, y)), [v, v2], dtype='float')
        # linearity, term by term of the sum (same bounds and the same indicator on both sides, so equal terms
        # give equal sums): inside the range the trapezoid of p v + q v2 is p trap(v) + q trap(v2), outside all
        # three terms are 0.  (Stated per term and per case so that the query is a plain polynomial identity.)
        k = ctx.fresh_int('k')
        k1 = S.add(k, 1)
        trap = lambda val: S.truediv(S.mul(S.sub(w.at((k1,)), w.at((k,))), S.add(val.at((k,)), val.at((k1,)))), 2)
        with_hyp_(ctx, [k >= 0, k1 < S.z(n)], lambda: ctx.oblige('C15::integrate.linear_in_the_values',
                                                               S.eq(trap(lin), S.add(S.mul(trap(v), p), S.mul(trap(v2), q)))))
    out.append(('C15::integrate_additive_linear', integrate_additive_and_linear))

    def trim_lemma(ctx):
        """Spectrum.trim(tol), 0 <= tol < 1, on the real code, any grid length: an all-zero spectrum is left as
        it is; a spectrum whose maximum is not positive is refused with ValueError and left as it is; otherwise
        exactly the samples from the first to the last one whose value exceeds tol * max(value) are kept,
        wavelengths and values unaltered, grid still valid."""
        from lvc.prove import with_hyp
        ctx.grid_validation = 'prove'
        ctx.grid_tag = 'trim'
        sp = mk_spectrum(ctx, 's')
        w0, v0 = sp.attrs['_wave'], sp.attrs['_value']
        n = w0.shape[0]
        tol = ctx.fresh_real('tol')
        ctx.assume(z3.And(tol >= 0, tol < 1))
        q = ctx.fresh_int('q')
        inq = z3.And(q >= 0, q < S.z(n))
        try:
            ctx.world.interp.call_function(ctx, method(ctx, sp, 'trim'), [sp, tol], {})
        except Raised as r:
            M = L._max_symbolic(ctx, v0, 'max')
            ctx.oblige('C15::Spectrum.trim.refused_only_without_a_positive_maximum', z3.And(z3.BoolVal(r.exc == 'ValueError'), S.z(S.le(M, 0))))
            ctx.oblige('C15::Spectrum.trim.refusal_leaves_the_spectrum_untouched', sp.attrs['_wave'] is w0 and sp.attrs['_value'] is v0)
            return
        w1, v1 = sp.attrs['_wave'], sp.attrs['_value']
        if w1 is w0 and v1 is v0:
            # untouched: only for an all-zero spectrum
            ctx.oblige('C15::Spectrum.trim.untouched_only_if_all_zero', z3.Implies(inq, S.z(S.eq(v0.at((q,)), 0))))
            return
        if not (isinstance(w1, Arr) and isinstance(v1, Arr) and w1.cell is w0.cell and v1.cell is v0.cell and w1.ndim == 1 and v1.ndim == 1
                and w1.axes[0] is not None and v1.axes[0] is not None and w1.axes[0].step == 1 and v1.axes[0].step == 1):
            raise S.Unsupported('trim: the result is not a contiguous view of the original arrays (witness for the first kept index unavailable)')
        f, n1 = w1.axes[0].start, w1.shape[0]
        M = L._max_symbolic(ctx, v0, 'max')
        ctx.oblige('C15::Spectrum.trim.one_value_per_wavelength', z3.And(S.z(S.eq(v1.shape[0], n1)), S.z(S.eq(v1.axes[0].start, f))))
        ctx.oblige('C15::Spectrum.trim.kept_block_inside_the_grid', z3.And(S.z(S.ge(f, 0)), S.z(S.ge(n1, 1)), S.z(S.le(S.add(f, n1), n))))
        last = S.sub(S.add(f, n1), 1)
        ctx.oblige('C15::Spectrum.trim.first_and_last_kept_exceed_the_tolerance',
                   z3.And(S.z(S.gt(S.truediv(v0.at((f,)), M), tol)), S.z(S.gt(S.truediv(v0.at((last,)), M), tol))))
        with_hyp(ctx, [inq, z3.Or(q < S.z(f), q > S.z(last))],
                 lambda: ctx.oblige('C15::Spectrum.trim.every_dropped_sample_is_within_the_tolerance', S.le(S.truediv(v0.at((q,)), M), tol)))
        k = ctx.fresh_int('k')
        with_hyp(ctx, [k >= 0, k < S.z(n1)],
                 lambda: ctx.oblige('C15::Spectrum.trim.retained_samples_unaltered',
                                    S.and_(S.eq(w1.at((k,)), w0.at((S.add(f, k),))), S.eq(v1.at((k,)), v0.at((S.add(f, k),))))))
    trim_lemma.native_replay = native_trim
    out.append(('C15::trim', trim_lemma))

    def crop_lemma(ctx):
        """Spectrum.crop(lo, hi) on the real code, any grid length, any lo / hi with at least one sample in
        [lo, hi]: exactly the samples with lo <= wave <= hi are kept (closed range), wavelengths and values
        unaltered and still paired, the kept grid is valid."""
        from lvc.prove import with_hyp
        ctx.grid_validation = 'prove'
        ctx.grid_tag = 'crop'
        sp = mk_spectrum(ctx, 's', pairwise=True)
        w0, v0 = sp.attrs['_wave'], sp.attrs['_value']
        n = w0.shape[0]
        lo, hi = ctx.fresh_real('min_wave'), ctx.fresh_real('max_wave')
        e = ctx.fresh_int('inside')
        ctx.assume(z3.And(e >= 0, e < S.z(n), S.z(S.le(lo, w0.at((e,)))), S.z(S.le(w0.at((e,)), hi))))
        ctx.world.interp.call_function(ctx, method(ctx, sp, 'crop'), [sp, lo, hi], {})
        i = ctx.fresh_int('i')
        inr = [i >= 0, i < S.z(n)]
        inside = S.and_(S.le(lo, w0.at((i,))), S.le(w0.at((i,)), hi))

        def view(x, x0, what):
            if x is x0:
                return (lambda t: True), (lambda t: x0.at((t,)))
            if isinstance(x, A.Gather) and ctx.known(S.eq(x.mask.shape[0], n)):
                return (lambda t: S.truth(x.mask.at((t,)))), x.value
            raise S.Unsupported('crop: %s is neither untouched nor a selection of the original samples' % what)
        for what, x, x0 in (('wave', sp.attrs['_wave'], w0), ('value', sp.attrs['_value'], v0)):
            sel, val = view(x, x0, what)
            with_hyp(ctx, inr, lambda: ctx.oblige('C15::Spectrum.crop.keeps_exactly_the_closed_range[%s]' % what,
                                                  S.z(S.truth(sel(i))) == S.z(inside)))
            with_hyp(ctx, inr + [S.z(S.truth(sel(i)))],
                     lambda: ctx.oblige('C15::Spectrum.crop.retained_samples_unaltered[%s]' % what, S.eq(val(i), x0.at((i,)))))
    crop_lemma.native_replay = native_crop
    out.append(('C15::crop', crop_lemma))

    def pad_lemma(ctx):
        """Spectrum.pad((lo, hi), sampling=d, values=(a, b)) with lo < min(wave), hi > max(wave), d > 0, on the real
        code for every grid length: the old samples keep their wavelengths AND their values, shifted as one block
        by the number of samples added on the left; every added sample carries the fill value of its side; the new
        grid starts at lo and ends at hi; wave and value have the same length; the grid handed to the setter is
        positive and strictly increasing."""
        from lvc.prove import with_hyp
        ctx.grid_validation = 'prove'
        ctx.grid_tag = 'pad'
        sp = mk_spectrum(ctx, 's', pairwise=True)
        w0, v0 = sp.attrs['_wave'], sp.attrs['_value']
        n = w0.shape[0]
        lo, hi, d = ctx.fresh_real('lo'), ctx.fresh_real('hi'), ctx.fresh_real('sampling')
        a, b = ctx.fresh_real('left_value'), ctx.fresh_real('right_value')
        ctx.assume(z3.And(d > 0, lo > 0, S.z(S.lt(lo, w0.at((0,)))), S.z(S.gt(hi, w0.at((S.sub(n, 1),))))))
        ctx.world.interp.call_function(ctx, method(ctx, sp, 'pad'), [sp, (lo, hi)], {'sampling': d, 'values': (a, b)})
        w1, v1 = A.as_array(ctx, sp.attrs['_wave']), A.as_array(ctx, sp.attrs['_value'])
        nl = S.ceil_(S.truediv(S.sub(w0.at((0,)), lo), d))              # samples added on the left  (= nleft - 1)
        nr = S.ceil_(S.truediv(S.sub(hi, w0.at((S.sub(n, 1),))), d))    # samples added on the right (= nright - 1)
        ctx.oblige('C15::Spectrum.pad.one_value_per_wavelength',
                   z3.And(S.z(S.eq(w1.shape[0], S.add(S.add(nl, n), nr))), S.z(S.eq(v1.shape[0], S.add(S.add(nl, n), nr)))))
        k = ctx.fresh_int('k')
        with_hyp(ctx, [k >= 0, k < S.z(n)], lambda: ctx.oblige(
            'C15::Spectrum.pad.retained_samples_unaltered',
            S.and_(S.eq(w1.at((S.add(nl, k),)), w0.at((k,))), S.eq(v1.at((S.add(nl, k),)), v0.at((k,))))))
        with_hyp(ctx, [k >= 0, k < S.z(nl)], lambda: ctx.oblige('C15::Spectrum.pad.left_samples_carry_the_left_value', S.eq(v1.at((k,)), a)))
        with_hyp(ctx, [k >= 0, k < S.z(nr)], lambda: ctx.oblige('C15::Spectrum.pad.right_samples_carry_the_right_value',
                                                              S.eq(v1.at((S.add(S.add(nl, n), k),)), b)))
        ctx.oblige('C15::Spectrum.pad.grid_starts_at_lo_and_ends_at_hi',
                   z3.And(S.z(S.eq(w1.at((0,)), lo)), S.z(S.eq(w1.at((S.sub(w1.shape[0], 1),)), hi))))
    pad_lemma.native_replay = native_pad
    out.append(('C15::pad', pad_lemma))
    return out


# ---------------------------------------------------------------------------------------
# The wavelength setter on the real code (C15): the abstraction used at call sites (wave_setter_model) says
# "refuses exactly the grids that are not positive and strictly increasing, otherwise stores the grid" - here
# that is discharged against the body (np.sort abstract: sorted result, identity on sorted input).

def _wave_setter_body():
    c = contract('lentil.radiometry.Spectrum.wave.setter#body', level='I')
    c.qualname = 'lentil.radiometry.Spectrum.wave.setter'
    c.tag = 'body'

    def params(ctx):
        cls = ctx.world.repo.klass('lentil.radiometry.Spectrum')
        n = ctx.fresh_int('n')
        ctx.assume(n >= 1)
        old = array(ctx, 'old_wave', (ctx.fresh_int('n_old'),), 'float')
        sp = Obj(cls, {'_wave': old, '_value': array(ctx, 'old_value', old.shape, 'float'), '_waveunit': unit_obj(ctx, 'nm'), '_valueunit': None})
        return {'self': sp, 'value': array(ctx, 'grid', (n,), 'float')}
    c.params = params
    c.modifies = {'self'}

    def invalid(ctx, env):
        g = env['value']
        n = g.shape[0]
        q = z3.Int(ctx._name('vq'))
        return z3.Or(z3.Exists([q], z3.And(q >= 0, q < S.z(n), S.z(S.le(g.at((q,)), 0)))),
                     z3.Exists([q], z3.And(q >= 0, q + 1 < S.z(n), S.z(S.ge(g.at((q,)), g.at((q + 1,)))))))
    c.raises['ValueError'] = invalid

    @c.post('stores_the_grid')
    def _(ctx, env0, env, out):
        g0, w1 = env0['value'], A.as_array(ctx, env['self'].attrs['_wave'])
        i, = ints(ctx, 'i')
        return z3.And(S.z(S.eq(w1.shape[0], g0.shape[0])),
                      z3.Implies(z3.And(i >= 0, i < S.z(g0.shape[0])), S.z(S.eq(w1.at((i,)), g0.at((i,))))))
    return c


_wave_setter_body()
