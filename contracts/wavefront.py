"""Symbolic Wavefront / Tilt builders and contracts for lentil/wavefront.py (C07, used by C02-C05, C09)."""
import z3

from lvc import sym as S
from lvc import arrops as A
from lvc.spec import contract, ints, shape2, array, elems
from lvc.values import Arr, Obj, PyList
from lvc.interp import Raised
from contracts import field as F
from contracts.ptype import gptype, new


def mk_wavefront(ctx, fields, ptype='pupil', shape=None, pixelscale='sym', focal_length='sym', name='w'):
    """A Wavefront object in the state its constructor / Plane.multiply / propagate leave it in."""
    cls = ctx.world.repo.klass('lentil.wavefront.Wavefront')
    wl = ctx.fresh_real(name + '.wavelength')
    ctx.assume(wl > 0)
    if pixelscale == 'sym':
        p0, p1 = ctx.fresh_real(name + '.dx_r'), ctx.fresh_real(name + '.dx_c')
        ctx.assume(z3.And(p0 > 0, p1 > 0))
        pixelscale = Arr.from_list([p0, p1])
        pixelscale.readonly = True
    if focal_length == 'sym':
        focal_length = ctx.fresh_real(name + '.z')
        ctx.assume(focal_length > 0)
    return Obj(cls, {'focal_length': focal_length, 'diameter': None, 'shape': shape if shape is not None else (),
                     '_wavelength': wl, '_pixelscale': pixelscale, '_ptype': gptype(ctx, ptype),
                     'data': PyList(list(fields))})


def mk_tilt(ctx, name):
    tx, ty = ctx.fresh_real(name + '.x'), ctx.fresh_real(name + '.y')
    t = new(ctx, 'lentil.plane.Tilt', x=tx, y=ty)
    t.attrs['_ghost_angles'] = (tx, ty)      # ghost: the (x, y) angles the object was built with
    return t


def field_total(ctx, fields, r, c):
    return F.total(ctx, fields, r, c)
