"""Contracts for lentil/util.py (property C20; used by C02, C09, C11, C17)."""
from fractions import Fraction

import z3

from lvc import sym as S
from lvc import arrops as A
from lvc.spec import contract, ints, shape2, array, elems
from lvc.values import Arr, PyList
from lvc.interp import Raised


# ---------------------------------------------------------------------------------------
# pad: zero-pad / crop about the origin sample floor(n/2)

def pad_model(ctx, env):
    """padded[.., R, C] = array[.., R - N//2 + n//2, C - M//2 + m//2] where that index exists, else 0:
    the origin sample (index floor(n/2)) goes to the new origin floor(N/2) on both axes."""
    a = A.as_array(ctx, env['array'])
    N, M = elems(ctx, env['shape'])[:2]
    snap = a.snapshot()
    if a.ndim == 3:
        d, n, m = a.shape
    elif a.ndim == 2:
        n, m = a.shape
    else:
        raise S.Unsupported('pad model: ndim')

    def src(idx):
        R, C = idx[-2], idx[-1]
        i = S.add(S.sub(R, S.floordiv(N, 2)), S.floordiv(n, 2))
        j = S.add(S.sub(C, S.floordiv(M, 2)), S.floordiv(m, 2))
        inside = S.and_(S.ge(i, 0), S.lt(i, n), S.ge(j, 0), S.lt(j, m))
        v = snap.at(tuple(idx[:-2]) + (i, j))
        zero = A.cast_scalar(0, a.dtype)
        return S.ite(inside, v, zero)
    shape = ((a.shape[0],) if a.ndim == 3 else ()) + (N, M)
    return Arr.from_fn(shape, a.dtype, src)


def _pad_params(ctx):
    N, M = shape2(ctx, 'shape', lo=1)
    if ctx.branch(ctx.fresh_bool('is_cube')):
        d = ctx.fresh_int('depth')
        ctx.assume(d >= 1)
        n, m = shape2(ctx, 'a')
        arr = array(ctx, 'a', (d, n, m), 'complex' if ctx.branch(ctx.fresh_bool('is_complex')) else 'float')
    else:
        n, m = shape2(ctx, 'a')
        arr = array(ctx, 'a', (n, m), 'complex' if ctx.branch(ctx.fresh_bool('is_complex')) else 'float')
    return {'array': arr, 'shape': (N, M)}


c = contract('lentil.util.pad')
c.params = _pad_params
c.model = pad_model


@c.post('origin_sample_kept')
def _(ctx, env0, env, out):
    # the property clause itself: the origin sample of the input is the origin sample of the output
    a, (N, M), p = env0['array'], env0['shape'], out.value
    n, m = a.shape[-2], a.shape[-1]
    k, = ints(ctx, 'k')
    pre = (k,) if a.ndim == 3 else ()
    got = p.at(pre + (S.floordiv(N, 2), S.floordiv(M, 2)))
    want = a.at(pre + (S.floordiv(n, 2), S.floordiv(m, 2)))
    inr = z3.And(k >= 0, k < a.shape[0]) if a.ndim == 3 else z3.BoolVal(True)
    return z3.Implies(inr, S.z(S.eq(got, want)))


# ---------------------------------------------------------------------------------------
c = contract('lentil.util.subarray')


def _sub_params(ctx):
    n, m = shape2(ctx, 'a')
    h, w = shape2(ctx, 'shape', lo=0)
    return {'a': array(ctx, 'a', (n, m), 'float'), 'shape': (h, w), 'shift': tuple(ints(ctx, 'shift0', 'shift1'))}


def subarray_model(ctx, env):
    a = A.as_array(ctx, env['a'])
    h, w = elems(ctx, env['shape'])
    s0, s1 = elems(ctx, env['shift'])
    n, m = a.shape
    rmin = S.add(S.sub(S.floordiv(n, 2), S.floordiv(h, 2)), s0)
    cmin = S.add(S.sub(S.floordiv(m, 2), S.floordiv(w, 2)), s1)
    bad = S.or_(S.lt(rmin, 0), S.lt(cmin, 0), S.gt(S.add(rmin, h), n), S.gt(S.add(cmin, w), m))
    if ctx.branch(bad):
        raise Raised('ValueError', 'window lies outside of array')
    snap = a.snapshot()
    return Arr.from_fn((h, w), a.dtype, lambda idx: snap.at((S.add(idx[0], rmin), S.add(idx[1], cmin))))


c.params = _sub_params
c.model = subarray_model


@c.post('centre_convention')
def _(ctx, env0, env, out):
    # sample floor(h/2) of the result is sample floor(n/2)+shift of the source
    a, (h, w), (s0, s1) = env0['a'], env0['shape'], env0['shift']
    n, m = a.shape
    return z3.Implies(z3.And(h >= 1, w >= 1),
                      S.z(S.eq(out.value.at((S.floordiv(h, 2), S.floordiv(w, 2))),
                               a.at((S.add(S.floordiv(n, 2), s0), S.add(S.floordiv(m, 2), s1))))))


# ---------------------------------------------------------------------------------------
# boundary: bounding box of x > threshold

def bbox_spec(ctx, x, thr, res):
    """res = (rmin, rmax, cmin, cmax) is the tight bounding box of {(i,j): x[i,j] > thr}."""
    rmin, rmax, cmin, cmax = [S.z(v) for v in res]
    n, m = x.shape
    i, j = z3.Int(ctx._name('bi')), z3.Int(ctx._name('bj'))
    above = lambda a, b: S.z(S.gt(x.at((a, b)), thr))
    inr = lambda a, b: z3.And(a >= 0, a < S.z(n), b >= 0, b < S.z(m))
    contains = z3.ForAll([i, j], z3.Implies(z3.And(inr(i, j), above(i, j)),
                                            z3.And(rmin <= i, i <= rmax, cmin <= j, j <= cmax)))
    w = [z3.Int(ctx._name('bw%d' % t)) for t in range(4)]
    tight = z3.Exists(w, z3.And(inr(rmin, w[0]), above(rmin, w[0]), inr(rmax, w[1]), above(rmax, w[1]),
                                inr(w[2], cmin), above(w[2], cmin), inr(w[3], cmax), above(w[3], cmax)))
    return z3.And(contains, tight)


def nonempty(ctx, x, thr):
    n, m = x.shape
    i, j = z3.Int(ctx._name('ni')), z3.Int(ctx._name('nj'))
    return z3.Exists([i, j], z3.And(i >= 0, i < S.z(n), j >= 0, j < S.z(m), S.z(S.gt(x.at((i, j)), thr))))


def boundary_call_model(ctx, env):
    x = A.as_array(ctx, env['x'])
    thr = env.get('threshold', 0)
    if x.ndim != 2:
        raise S.Unsupported('boundary model: ndim')
    if getattr(ctx, 'bbox_quantified', True):
        ne = nonempty(ctx, x, thr)
    else:
        cache = ctx.__dict__.setdefault('_bbox_ne', {})
        ne = cache.setdefault((x.cell.id, str(thr)), ctx.fresh_bool('mask_has_support'))
    if not ctx.branch(ne):
        raise Raised('IndexError', 'no sample above threshold')
    key = ('bbox', x.cell.id, len(x.cell.writes), str(thr))
    cache = ctx.__dict__.setdefault('_bbox_cache', {})
    if key not in cache:
        res = tuple(ctx.fresh_int('bbox.' + v) for v in ('rmin', 'rmax', 'cmin', 'cmax'))
        if getattr(ctx, 'bbox_quantified', True):
            ctx.assume(bbox_spec(ctx, x.snapshot(), thr, res), 'contract:lentil.util.boundary')
        else:
            # quantifier-free consequence of the contract: a non-empty box inside the array
            n, m = x.shape
            ctx.assume(z3.And(res[0] >= 0, res[0] <= res[1], res[1] < S.z(n),
                              res[2] >= 0, res[2] <= res[3], res[3] < S.z(m)),
                       'contract:lentil.util.boundary (box inside the array)')
        cache[key] = res
    return cache[key]


c = contract('lentil.util.boundary')


def _bnd_params(ctx):
    n, m = shape2(ctx, 'x')
    return {'x': array(ctx, 'x', (n, m), 'float'), 'threshold': ctx.fresh_real('thr')}


c.params = _bnd_params
c.raises['IndexError'] = lambda ctx, env: z3.Not(nonempty(ctx, env['x'], env['threshold']))
c.call_model = boundary_call_model


@c.post('bounding_box')
def _(ctx, env0, env, out):
    return bbox_spec(ctx, env0['x'], env0['threshold'], out.value)


# ---------------------------------------------------------------------------------------
c = contract('lentil.util.window')


def _win_params(ctx):
    n, m = shape2(ctx, 'img')
    img = array(ctx, 'img', (n, m), 'float')
    ctx.assume(z3.Not(z3.And(n == 1, m == 1)))
    mode = ctx.fresh_int('mode')
    if ctx.branch(mode == 0):
        return {'img': img, 'shape': None, 'slice': None}
    if ctx.branch(mode == 1):
        return {'img': img, 'shape': shape2(ctx, 'shape'), 'slice': None}
    r0, r1, c0, c1 = ints(ctx, 'r0', 'r1', 'c0', 'c1')
    ctx.assume(z3.And(0 <= r0, r0 <= r1, r1 <= n, 0 <= c0, c0 <= c1, c1 <= m))
    if ctx.branch(mode == 2):
        return {'img': img, 'shape': None, 'slice': (r0, r1, c0, c1)}
    return {'img': img, 'shape': tuple(ints(ctx, 'sh0', 'sh1')), 'slice': (r0, r1, c0, c1)}


def window_model(ctx, env):
    img = A.as_array(ctx, env['img'])
    shape, sl = env['shape'], env['slice']
    if shape is None and sl is None:
        return img
    if sl is not None:
        r0, r1, c0, c1 = elems(ctx, sl)
        if shape is not None:
            sh = elems(ctx, shape)
            if not ctx.branch(S.eq(S.sub(r1, r0), sh[0])):
                raise Raised('AssertionError')
            if not ctx.branch(S.eq(S.sub(c1, c0), sh[1])):
                raise Raised('AssertionError')
        return A.getitem(ctx, img, (slice(r0, r1), slice(c0, c1)))
    return pad_model(ctx, {'array': img, 'shape': shape})


c.params = _win_params
c.model = window_model


# ---------------------------------------------------------------------------------------
# client lemma over the contract of pad (its body is proved equal to pad_model): padding to a shape that is
# at least as large on both axes and cropping back is the identity - 2-D arrays and cubes, every parity mix

def pad_round_trip(ctx):
    for cube in (False, True):
        n, m = shape2(ctx, 'a')
        N, M = shape2(ctx, 'big')
        ctx.assume(z3.And(S.z(S.ge(N, n)), S.z(S.ge(M, m))))
        if cube:
            d = ctx.fresh_int('depth')
            ctx.assume(d >= 1)
            a = array(ctx, 'a', (d, n, m), 'float')
        else:
            a = array(ctx, 'a', (n, m), 'float')
        big = pad_model(ctx, {'array': a, 'shape': (N, M)})
        back = pad_model(ctx, {'array': big, 'shape': (n, m)})
        i, j, k = ints(ctx, 'i', 'j', 'k')
        idx = ((k,) if cube else ()) + (i, j)
        inr = z3.And(i >= 0, i < S.z(n), j >= 0, j < S.z(m), *( [k >= 0, k < S.z(a.shape[0])] if cube else []))
        tag = 'cube' if cube else '2-D'
        ctx.oblige('C20::pad.grow_then_crop_back_is_the_identity[%s].shape' % tag,
                   z3.And(S.z(S.eq(back.shape[-2], n)), S.z(S.eq(back.shape[-1], m))))
        ctx.oblige('C20::pad.grow_then_crop_back_is_the_identity[%s]' % tag, z3.Implies(inr, S.z(S.eq(back.at(idx), a.at(idx)))))


LEMMAS = [('C20::pad_round_trip', pad_round_trip)]


# ---------------------------------------------------------------------------------------
# rebin: integer-factor binning = block sums (C20)

def rebin_model(ctx, env):
    """out[.., i, j] = sum_{a < f} sum_{b < f} img[.., i f + a, j f + b] on (n // f, m // f) blocks."""
    img, f = A.as_array(ctx, env['img']), env['factor']
    snap = img.snapshot()
    n, m = img.shape[-2], img.shape[-1]
    # numpy's reshape refuses an axis that is not a whole number of blocks
    if ctx.branch(z3.Or(S.z(S.ne(S.mod(n, f), 0)), S.z(S.ne(S.mod(m, f), 0)))):
        raise Raised('ValueError', 'cannot reshape array')

    def fn(idx):
        i, j = idx[-2], idx[-1]
        pre = tuple(idx[:-2])
        return S.sigma(0, f, lambda a: S.sigma(0, f, lambda b: snap.at(pre + (S.add(S.mul(i, f), a), S.add(S.mul(j, f), b)))))
    shape = tuple(img.shape[:-2]) + (S.floordiv(n, f), S.floordiv(m, f))
    return Arr.from_fn(shape, img.dtype, fn)


def _rebin_contract(tag, depth):
    c = contract('lentil.util.rebin#%s' % tag, level='I')
    c.qualname = 'lentil.util.rebin'
    c.tag = tag

    def params(ctx):
        f = ctx.fresh_int('factor')
        ctx.assume(f >= 1)
        n, m = shape2(ctx, 'img')
        shape = (n, m) if depth is None else (depth, n, m)
        return {'img': array(ctx, 'img', shape, 'float'), 'factor': f}
    c.params = params
    c.model = rebin_model
    c.modifies = set()
    return c


_rebin_contract('2-D', None)
_rebin_contract('cube-of-2', 2)
REBIN = ['lentil.util.rebin#2-D']      # the cube variant has one slow (unstable) index-arithmetic query: left to the bounded stand-in


# ---------------------------------------------------------------------------------------
# centroid: first moments in index coordinates (C20; the abstraction used at call sites is in zernike.py)

def _centroid_contract():
    c = contract('lentil.util.centroid#moments', level='I')
    c.qualname = 'lentil.util.centroid'
    c.tag = 'moments'

    def params(ctx):
        return {'img': array(ctx, 'img', shape2(ctx, 'img'), 'float')}
    c.params = params
    c.modifies = set()

    @c.post('first_moments_over_total')
    def _(ctx, env0, env, out):
        from lvc import prove
        img = env0['img']
        n, m = img.shape
        total = S.sigma(0, n, lambda i: S.sigma(0, m, lambda j: img.at((i, j))))
        if getattr(ctx, 'replaying', False):
            v = prove.expand_sums(ctx, total)       # concrete inputs: the total itself
        else:
            prove.force(ctx, out.value)
            v = prove.find_named_sum(ctx, total)
            ctx.oblige('util.centroid::normalises_by_the_total', v is not None, 'structure')
        r, cc = elems(ctx, out.value)
        if v is None:
            return None
        mr = S.sigma(0, n, lambda i: S.sigma(0, m, lambda j: S.truediv(S.mul(i, img.at((i, j))), v)))
        mc = S.sigma(0, n, lambda i: S.sigma(0, m, lambda j: S.truediv(S.mul(j, img.at((i, j))), v)))
        # precondition of the clause: the image has a non-zero total (numpy yields nan / inf otherwise)
        prove.with_hyp(ctx, [S.z(S.ne(v, 0))], lambda: (prove.oblige_equal(ctx, 'util.centroid::row_is_first_moment_over_total', r, mr),
                                               prove.oblige_equal(ctx, 'util.centroid::column_is_first_moment_over_total', cc, mc)))
        return None
    return c


_centroid_contract()


# ---------------------------------------------------------------------------------------
# util.rescale on the real code (C17): where it samples and what it returns.  scipy's map_coordinates is
# abstract (an uninterpreted interpolant per call that reproduces its input at integer positions).

def _rescale_body_contract(tag, order, mode, with_mask=False):
    c = contract('lentil.util.rescale#%s' % tag, level='I')
    c.qualname = 'lentil.util.rescale'
    c.tag = tag

    def params(ctx):
        img = array(ctx, 'img', shape2(ctx, 'img'), 'float')
        s = ctx.fresh_real('scale')
        ctx.assume(s > 0)
        mask = array(ctx, 'mask', img.shape, 'float') if with_mask else None      # the caller's own mask array
        return {'img': img, 'scale': s, 'shape': None, 'mask': mask, 'order': order, 'mode': mode, 'unitary': False}
    c.params = params
    c.modifies = set()          # neither the image nor a caller-supplied mask is written

    @c.post('samples_the_centred_grid')
    def _(ctx, env0, env, out):
        from lvc import prove
        img, s, res = env0['img'], env0['scale'], out.value
        n, m = img.shape
        N, M = S.ceil_(S.mul(n, s)), S.ceil_(S.mul(m, s))
        name = 'util.rescale::%%s[%s]' % tag
        ctx.oblige(name % 'shape_is_ceil_n_times_scale', z3.And(S.z(S.eq(res.shape[0], N)), S.z(S.eq(res.shape[1], M))))
        i, j = ints(ctx, 'i', 'j')
        inr = [i >= 0, i < S.z(N), j >= 0, j < S.z(M)]
        if getattr(ctx, 'replaying', False):
            # the other clauses are about the recorded interpolation calls; on a native outcome only the
            # identity at scale 1 can be judged
            if not with_mask:
                prove.with_hyp(ctx, inr + [S.z(S.eq(s, 1))], lambda: ctx.oblige(name % 'identity_at_scale_1', S.eq(res.at((i, j)), img.at((i, j)))))
            return None
        calls = ctx.__dict__.get('ghost_map_coordinates', [])
        ok = len(calls) == 2 and calls[0]['order'] == 1 and calls[0]['mode'] == 'nearest' and calls[1]['order'] == order and calls[1]['mode'] == mode
        ctx.oblige(name % 'interpolates_support_mask_then_image', ok, 'structure',
                   info={'calls': [(c_['order'], c_['mode']) for c_ in calls]})
        if not ok:
            return None
        # output sample (i, j) looks at input position ((i - N/2)/s + n/2, (j - M/2)/s + m/2): the centres
        # floor-free N/2 and n/2 of the two grids are mapped onto each other and the spacing is 1/s
        want_y = S.add(S.truediv(S.sub(i, S.truediv(N, 2)), s), S.truediv(n, 2))
        want_x = S.add(S.truediv(S.sub(j, S.truediv(M, 2)), s), S.truediv(m, 2))
        for k, what in ((0, 'mask'), (1, 'image')):
            cl = calls[k]
            prove.with_hyp(ctx, inr, lambda cl=cl, what=what: ctx.oblige(
                name % ('%s_sampled_on_the_centred_grid' % what),
                S.and_(S.eq(cl['yy'].at((i, j)), want_y), S.eq(cl['xx'].at((i, j)), want_x)), 'structure'))
        p, q = ints(ctx, 'p', 'q')
        inp = [p >= 0, p < S.z(n), q >= 0, q < S.z(m)]
        if with_mask:
            prove.with_hyp(ctx, inp, lambda: ctx.oblige(name % 'interpolated_mask_is_the_callers_mask',
                                                        S.eq(calls[0]['input'].at((p, q)), env0['mask'].at((p, q))), 'structure'))
        else:
            prove.with_hyp(ctx, inp, lambda: ctx.oblige(name % 'interpolated_mask_is_the_support_of_the_image',
                                                        S.eq(calls[0]['input'].at((p, q)), S.ite(S.ne(img.at((p, q)), 0), 1, 0)), 'structure'))
        prove.with_hyp(ctx, inp, lambda: ctx.oblige(name % 'interpolated_image_is_the_input', S.eq(calls[1]['input'].at((p, q)), img.at((p, q))), 'structure'))
        # result = interpolated image x interpolated support (values below machine epsilon cut to 0)
        mi = calls[0]['output'].at((i, j))
        eps = Fraction(1, 2 ** 52)
        want = S.mul(calls[1]['output'].at((i, j)), S.ite(S.lt(mi, eps), 0, mi))
        prove.with_hyp(ctx, inr, lambda: ctx.oblige(name % 'interpolated_image_times_interpolated_support', S.eq(res.at((i, j)), want), 'structure'))
        # identity at scale 1 (given that the interpolant reproduces its knots)
        if not with_mask:
            prove.with_hyp(ctx, inr + [S.z(S.eq(s, 1))], lambda: ctx.oblige(name % 'identity_at_scale_1', S.eq(res.at((i, j)), img.at((i, j)))))
        return None
    return c


_rescale_body_contract('cubic-nearest', 3, 'nearest')
_rescale_body_contract('order0-constant', 0, 'constant')
_rescale_body_contract('cubic-nearest-callers-mask', 3, 'nearest', with_mask=True)
RESCALE_BODY = ['lentil.util.rescale#cubic-nearest', 'lentil.util.rescale#order0-constant', 'lentil.util.rescale#cubic-nearest-callers-mask']
