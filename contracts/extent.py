"""Contracts for lentil/extent.py: every clause is an equivalence with the set of integer pixel
coordinates an extent (rmin, rmax, cmin, cmax) stands for (property C06; used by C02, C03)."""
import z3

from lvc import sym as S
from lvc.spec import contract, extent, shape2, ints, int_pair, in_extent, elems


def pixels(e, r, c):
    """(r, c) is a pixel of extent e."""
    return z3.And(r >= e[0], r <= e[1], c >= e[2], c <= e[3])


# ---------------------------------------------------------------------------------------
c = contract('lentil.extent.array_extent')


def _ae_params(ctx):
    shape = shape2(ctx, 'shape')
    shift = int_pair(ctx, 'shift')
    use_parent = ctx.fresh_bool('has_parent')
    if ctx.branch(use_parent):
        parent = shape2(ctx, 'parent', lo=0)
    else:
        parent = None
    return {'shape': shape, 'shift': shift, 'parent_shape': parent}


def array_extent_model(ctx, env):
    """Extent of an h x w array whose centre sample (index floor(n/2)) sits at `shift`
    (+ the parent's centre index floor(N/2) when a parent shape is given)."""
    shape, shift, parent = elems(ctx, env['shape']), elems(ctx, env['shift']), env['parent_shape']
    parent = None if parent is None else elems(ctx, parent)
    if len(shape) < 2:
        shape = (1, 1)
    h, w = shape[0], shape[1]
    pr = S.floordiv(parent[0], 2) if parent is not None else 0
    pc = S.floordiv(parent[1], 2) if parent is not None else 0
    rmin = S.add(S.add(S.neg(S.floordiv(h, 2)), S.fix_(shift[0]) if S.is_real(shift[0]) else shift[0]), pr)
    cmin = S.add(S.add(S.neg(S.floordiv(w, 2)), S.fix_(shift[1]) if S.is_real(shift[1]) else shift[1]), pc)
    return (rmin, S.sub(S.add(rmin, h), 1), cmin, S.sub(S.add(cmin, w), 1))


c.params = _ae_params
c.model = array_extent_model


@c.post('pixel_set')
def _(ctx, env0, env, out):
    # property reading: index i of the array sits at plane coordinate i - floor(h/2) + shift
    if out.kind != 'return':
        return False
    e = out.value
    h, w = env0['shape']
    i, j = ints(ctx, 'i', 'j')
    parent = env0['parent_shape']
    pr = parent[0] / 2 if parent is not None else 0
    pc = parent[1] / 2 if parent is not None else 0
    r = i - h / 2 + env0['shift'][0] + pr
    cc = j - w / 2 + env0['shift'][1] + pc
    inside = z3.And(i >= 0, i < h, j >= 0, j < w)
    # every array index maps into the extent, and the four corners are attained
    return z3.And(z3.Implies(inside, pixels(e, r, cc)),
                  e[1] - e[0] + 1 == h, e[3] - e[2] + 1 == w,
                  e[0] == 0 - h / 2 + env0['shift'][0] + pr, e[2] == 0 - w / 2 + env0['shift'][1] + pc)


# ---------------------------------------------------------------------------------------
c = contract('lentil.extent.array_center')
c.params = lambda ctx: {'extent': extent(ctx, 'e')}


def array_center_model(ctx, env):
    e = env['extent']
    return (S.add(e[0], S.floordiv(S.add(S.sub(e[1], e[0]), 1), 2)),
            S.add(e[2], S.floordiv(S.add(S.sub(e[3], e[2]), 1), 2)))


c.model = array_center_model


@c.post('inverse_of_array_extent')
def _(ctx, env0, env, out):
    # the centre of extent(shape, shift) is shift
    e = env0['extent']
    h, w = e[1] - e[0] + 1, e[3] - e[2] + 1
    s0, s1 = out.value
    return z3.And(e[0] == -(h / 2) + s0, e[2] == -(w / 2) + s1)


# ---------------------------------------------------------------------------------------
c = contract('lentil.extent.intersect')
c.params = lambda ctx: {'a': extent(ctx, 'a'), 'b': extent(ctx, 'b')}


def intersect_model(ctx, env):
    a, b = env['a'], env['b']
    return S.and_(S.le(a[0], b[1]), S.ge(a[1], b[0]), S.le(a[2], b[3]), S.ge(a[3], b[2]))


c.model = intersect_model


@c.post('iff_common_pixel')
def _(ctx, env0, env, out):
    a, b = env0['a'], env0['b']
    res = S.z(ctx.world.interp.truthy(ctx, out.value))
    r, cc = ints(ctx, 'r', 'c')
    # (=>) any common pixel forces True;  (<=) when True, max-corner is a common pixel
    wr = z3.If(a[0] >= b[0], a[0], b[0])
    wc = z3.If(a[2] >= b[2], a[2], b[2])
    return z3.And(z3.Implies(z3.And(pixels(a, r, cc), pixels(b, r, cc)), res),
                  z3.Implies(res, z3.And(pixels(a, wr, wc), pixels(b, wr, wc))))


# ---------------------------------------------------------------------------------------
c = contract('lentil.extent.intersection_extent')
c.params = lambda ctx: {'a': extent(ctx, 'a'), 'b': extent(ctx, 'b')}


def intersection_extent_model(ctx, env):
    a, b = env['a'], env['b']
    return (S.max_(a[0], b[0]), S.min_(a[1], b[1]), S.max_(a[2], b[2]), S.min_(a[3], b[3]))


c.model = intersection_extent_model


@c.post('pixel_set_is_intersection')
def _(ctx, env0, env, out):
    a, b = env0['a'], env0['b']
    e = out.value
    r, cc = ints(ctx, 'r', 'c')
    return pixels(e, r, cc) == z3.And(pixels(a, r, cc), pixels(b, r, cc))


# ---------------------------------------------------------------------------------------
c = contract('lentil.extent.intersection_shape')
c.params = lambda ctx: {'a': extent(ctx, 'a'), 'b': extent(ctx, 'b')}


def intersection_shape_model(ctx, env):
    e = intersection_extent_model(ctx, env)
    nr, nc = S.add(S.sub(e[1], e[0]), 1), S.add(S.sub(e[3], e[2]), 1)
    if ctx.branch(S.or_(S.le(nr, 0), S.le(nc, 0))):
        return ()
    return (nr, nc)


c.model = intersection_shape_model


@c.post('counts_common_pixels')
def _(ctx, env0, env, out):
    a, b = env0['a'], env0['b']
    v = out.value
    r, cc = ints(ctx, 'r', 'c')
    common = z3.And(pixels(a, r, cc), pixels(b, r, cc))
    if len(v) == 0:
        return z3.Not(common)
    lo_r = z3.If(a[0] >= b[0], a[0], b[0])
    lo_c = z3.If(a[2] >= b[2], a[2], b[2])
    return z3.And(v[0] >= 1, v[1] >= 1,
                  common == z3.And(r >= lo_r, r < lo_r + v[0], cc >= lo_c, cc < lo_c + v[1]))


# ---------------------------------------------------------------------------------------
c = contract('lentil.extent.intersection_slices')
c.params = lambda ctx: {'a': extent(ctx, 'a'), 'b': extent(ctx, 'b')}
c.pre = lambda ctx, env: intersect_model(ctx, env)


def intersection_slices_model(ctx, env):
    a, b = env['a'], env['b']
    e = intersection_extent_model(ctx, env)
    mk = lambda lo, hi, base: slice(S.sub(lo, base), S.add(S.sub(hi, base), 1))
    return ((mk(e[0], e[1], a[0]), mk(e[2], e[3], a[2])), (mk(e[0], e[1], b[0]), mk(e[2], e[3], b[2])))


c.model = intersection_slices_model


@c.post('select_common_pixels')
def _(ctx, env0, env, out):
    # index i of a's array is plane row a.rmin + i; the slices select exactly the common rows/cols,
    # are within bounds (no negative start, so no wrap-around) and have equal lengths
    a, b = env0['a'], env0['b']
    (ar, ac), (br, bc) = out.value
    i, = ints(ctx, 'i')
    ha, wa = a[1] - a[0] + 1, a[3] - a[2] + 1
    hb, wb = b[1] - b[0] + 1, b[3] - b[2] + 1
    f = []
    for sl, lo, n, olo, ohi in ((ar, a[0], ha, b[0], b[1]), (br, b[0], hb, a[0], a[1]),
                                (ac, a[2], wa, b[2], b[3]), (bc, b[2], wb, a[2], a[3])):
        st, sp = S.z(sl.start), S.z(sl.stop)
        f.append(z3.And(st >= 0, sp <= n, st < sp))
        f.append(z3.Implies(z3.And(i >= 0, i < n),
                            z3.And(i >= st, i < sp) == z3.And(lo + i >= olo, lo + i <= ohi)))
    f.append(S.z(ar.stop) - S.z(ar.start) == S.z(br.stop) - S.z(br.start))
    f.append(S.z(ac.stop) - S.z(ac.start) == S.z(bc.stop) - S.z(bc.start))
    f.append(a[0] + S.z(ar.start) == b[0] + S.z(br.start))
    f.append(a[2] + S.z(ac.start) == b[2] + S.z(bc.start))
    return z3.And(*f)


# ---------------------------------------------------------------------------------------
c = contract('lentil.extent.intersection_shift')
c.params = lambda ctx: {'a': extent(ctx, 'a'), 'b': extent(ctx, 'b')}
c.pre = lambda ctx, env: intersect_model(ctx, env)


def intersection_shift_model(ctx, env):
    e = intersection_extent_model(ctx, env)
    return array_center_model(ctx, {'extent': e})


c.model = intersection_shift_model


@c.post('offset_of_intersection')
def _(ctx, env0, env, out):
    # array_extent(intersection_shape, intersection_shift) is the intersection itself
    a, b = env0['a'], env0['b']
    e = intersection_extent_model(ctx, env0)
    h, w = S.z(e[1]) - S.z(e[0]) + 1, S.z(e[3]) - S.z(e[2]) + 1
    s0, s1 = out.value
    return z3.And(S.z(e[0]) == -(h / 2) + s0, S.z(e[2]) == -(w / 2) + s1)
