"""Contracts for lentil/shape.py (property C20): drawn shapes."""
import z3

from lvc import sym as S
from lvc import arrops as A
from lvc import nplib as L
from lvc.spec import contract, ints, shape2, array, elems
from lvc.values import Arr, PyList
from contracts import helper as H


def clip01(x):
    return S.min_(S.max_(x, 0), 1)


# ---------------------------------------------------------------------------------------
def circle_model(ctx, env):
    """mask[i, j] = clip(radius + 1/2 - dist((i, j), origin + shift), 0, 1), origin = floor(n/2);
    without antialiasing every positive value becomes 1."""
    nr, nc = elems(ctx, env['shape'])[:2]
    radius = env['radius']
    s0, s1 = elems(ctx, env.get('shift', (0, 0)))
    aa = env.get('antialias', True)

    def fn(idx):
        dr = S.sub(S.sub(idx[0], S.floordiv(nr, 2)), s0)
        dc = S.sub(S.sub(idx[1], S.floordiv(nc, 2)), s1)
        r = L.sqrt_scalar(ctx, S.add(S.mul(dr, dr), S.mul(dc, dc)))
        v = clip01(S.sub(S.add(radius, S.frac(0.5)), r))
        if not aa:
            v = S.ite(S.gt(v, 0), S.to_real(1), v)
        return S.to_real(v)
    return Arr.from_fn((nr, nc), 'float', fn)


c = contract('lentil.shape.circle', level='I')


def _circle_params(ctx):
    return {'shape': shape2(ctx, 'shape'), 'radius': ctx.fresh_real('radius'),
            'shift': (ctx.fresh_real('shift0'), ctx.fresh_real('shift1')),
            'antialias': ctx.branch(ctx.fresh_bool('antialias'))}


c.params = _circle_params
c.model = circle_model


@c.post('range_and_binary')
def _(ctx, env0, env, out):
    nr, nc = env0['shape']
    i, j = ints(ctx, 'i', 'j')
    v = S.z(out.value.at((i, j)))
    inr = z3.And(i >= 0, i < nr, j >= 0, j < nc)
    f = z3.And(v >= 0, v <= 1)
    if not env0['antialias']:
        f = z3.And(f, z3.Or(v == 0, v == 1))
    return z3.Implies(inr, f)


# ---------------------------------------------------------------------------------------
def rectangle_model(ctx, env):
    nr, nc = elems(ctx, env['shape'])[:2] if not S.is_scalar(env['shape']) else (env['shape'], env['shape'])
    width, height = env['width'], env['height']
    s0, s1 = elems(ctx, env.get('shift', (0, 0)))
    aa = env.get('antialias', True)
    angle = env.get('angle', 0)
    half = S.frac(0.5)
    mr, mc = H.mesh_model(ctx, {'shape': (nr, nc), 'shift': (s0, s1), 'angle': angle})

    def fn(idx):
        rr = mr.at(idx)
        cc = mc.at(idx)
        wc = clip01(S.sub(S.add(half, S.truediv(width, 2)), S.abs_(cc)))
        hc = clip01(S.sub(S.add(half, S.truediv(height, 2)), S.abs_(rr)))
        v = S.min_(S.min_(1, wc), hc)
        if not aa:
            v = S.ite(S.gt(v, 0), 1, v)
        return S.to_real(v)
    return Arr.from_fn((nr, nc), 'float', fn)


c = contract('lentil.shape.rectangle', level='I')


def _rect_params(ctx):
    return {'shape': shape2(ctx, 'shape'), 'width': ctx.fresh_real('width'), 'height': ctx.fresh_real('height'),
            'shift': (ctx.fresh_real('shift0'), ctx.fresh_real('shift1')),
            'angle': 0 if ctx.branch(ctx.fresh_bool('angle_is_zero')) else ctx.fresh_real('angle'),
            'antialias': ctx.branch(ctx.fresh_bool('antialias'))}


c.params = _rect_params
c.model = rectangle_model


@c.post('range_and_binary')
def _(ctx, env0, env, out):
    nr, nc = env0['shape']
    i, j = ints(ctx, 'i', 'j')
    v = S.z(out.value.at((i, j)))
    inr = z3.And(i >= 0, i < nr, j >= 0, j < nc)
    f = z3.And(v >= 0, v <= 1)
    if not env0['antialias']:
        f = z3.And(f, z3.Or(v == 0, v == 1))
    return z3.Implies(inr, f)


# ---------------------------------------------------------------------------------------
def hexagon_model(ctx, env):
    """mask = min over the six sides n of clip(r_in + 1/2 - rho_n) (antialias) or [rho_n <= r_in],
    rho_n = r sin(theta_n) + c cos(theta_n), theta_n = n pi/3 (+ pi/6 unless rotate), r_in = R sqrt(3)/2."""
    sh = env['shape']
    nr, nc = (sh, sh) if S.is_scalar(sh) else elems(ctx, sh)[:2]
    radius = env['radius']
    s0, s1 = elems(ctx, env.get('shift', (0, 0)))
    rotate = env.get('rotate', False)
    aa = env.get('antialias', True)
    inner = S.truediv(S.mul(radius, L.sqrt_scalar(ctx, 3)), 2)

    def fn(idx):
        r = S.sub(S.sub(idx[0], S.floordiv(nr, 2)), s0)
        cc = S.sub(S.sub(idx[1], S.floordiv(nc, 2)), s1)
        v = S.to_real(1)
        for n in range(6):
            theta = side_angle(n, rotate)
            rho = S.add(S.mul(r, L.sin_scalar(ctx, theta)), S.mul(cc, L.cos_scalar(ctx, theta)))
            if aa:
                slc = clip01(S.sub(S.add(inner, S.frac(0.5)), rho))
            else:
                slc = S.ite(S.gt(rho, inner), 0, 1)
            v = S.min_(v, slc)
        return S.to_real(v)
    return Arr.from_fn((nr, nc), 'float', fn)


c = contract('lentil.shape.hexagon', level='I')


def _hex_params(ctx):
    return {'shape': shape2(ctx, 'shape'), 'radius': ctx.fresh_real('radius'),
            'shift': (ctx.fresh_real('shift0'), ctx.fresh_real('shift1')),
            'rotate': ctx.branch(ctx.fresh_bool('rotate')),
            'antialias': ctx.branch(ctx.fresh_bool('antialias'))}


c.params = _hex_params
c.model = hexagon_model


@c.post('range_and_binary')
def _(ctx, env0, env, out):
    nr, nc = env0['shape']
    i, j = ints(ctx, 'i', 'j')
    v = S.z(out.value.at((i, j)))
    inr = z3.And(i >= 0, i < nr, j >= 0, j < nc)
    f = z3.And(v >= 0, v <= 1)
    if not env0['antialias']:
        f = z3.And(f, z3.Or(v == 0, v == 1))
    return z3.Implies(inr, f)


# ---------------------------------------------------------------------------------------
# client lemmas over the models (the bodies are proved equal to the models above)

def _sym_lemmas(model, mkenv, name):
    def translation(ctx):
        # integer shift (a, b): value at (i, j) with shift equals value at (i - a, j - b) without
        env = mkenv(ctx)
        a, b = ints(ctx, 'a', 'b')
        env_s = dict(env, shift=(a, b))
        env_0 = dict(env, shift=(0, 0))
        m1, m0 = model(ctx, env_s), model(ctx, env_0)
        i, j = ints(ctx, 'i', 'j')
        ctx.oblige('%s::integer_translation' % name, S.eq(m1.at((i, j)), m0.at((S.sub(i, a), S.sub(j, b)))))

    def half_turn(ctx):
        # unchanged by a half-turn about the origin sample: value at o + d equals value at o - d
        env = dict(mkenv(ctx), shift=(0, 0))
        m0 = model(ctx, env)
        nr, nc = env['shape']
        d, e = ints(ctx, 'd', 'e')
        o0, o1 = S.floordiv(nr, 2), S.floordiv(nc, 2)
        ctx.oblige('%s::half_turn' % name,
                   S.eq(m0.at((S.add(o0, d), S.add(o1, e))), m0.at((S.sub(o0, d), S.sub(o1, e)))))

    def mirror(ctx):
        env = dict(mkenv(ctx), shift=(0, 0))
        m0 = model(ctx, env)
        nr, nc = env['shape']
        d, e = ints(ctx, 'd', 'e')
        o0, o1 = S.floordiv(nr, 2), S.floordiv(nc, 2)
        ctx.oblige('%s::mirror_columns' % name,
                   S.eq(m0.at((S.add(o0, d), S.add(o1, e))), m0.at((S.add(o0, d), S.sub(o1, e)))))
        ctx.oblige('%s::mirror_rows' % name,
                   S.eq(m0.at((S.add(o0, d), S.add(o1, e))), m0.at((S.sub(o0, d), S.add(o1, e)))))
    return translation, half_turn, mirror


def trig_axioms(ctx):
    """sin(x + pi) = -sin x, cos(x + pi) = -cos x at the six side angles; cos is even, sin odd."""
    x = z3.Real('tx')
    ctx.assume(z3.ForAll([x], z3.And(L.SIN(x + L.PI) == -L.SIN(x), L.COS(x + L.PI) == -L.COS(x))),
               'axiom:sin(x+pi)=-sin x, cos(x+pi)=-cos x')


def _circle_env(ctx):
    return {'shape': shape2(ctx, 'shape'), 'radius': ctx.fresh_real('radius'),
            'antialias': ctx.branch(ctx.fresh_bool('antialias'))}


def _rect_env(ctx):
    return {'shape': shape2(ctx, 'shape'), 'width': ctx.fresh_real('width'), 'height': ctx.fresh_real('height'),
            'angle': 0, 'antialias': ctx.branch(ctx.fresh_bool('antialias'))}


def _rect_rot_env(ctx):
    return {'shape': shape2(ctx, 'shape'), 'width': ctx.fresh_real('width'), 'height': ctx.fresh_real('height'),
            'angle': ctx.fresh_real('angle'), 'antialias': ctx.branch(ctx.fresh_bool('antialias'))}


def _hex_env(ctx):
    return {'shape': shape2(ctx, 'shape'), 'radius': ctx.fresh_real('radius'),
            'rotate': ctx.branch(ctx.fresh_bool('rotate')), 'antialias': ctx.branch(ctx.fresh_bool('antialias'))}


LEMMAS = []
for _nm, _model, _mk in (('shape.circle', circle_model, _circle_env), ('shape.rectangle', rectangle_model, _rect_env)):
    _t, _h, _m = _sym_lemmas(_model, _mk, _nm)
    LEMMAS += [(_nm + '::integer_translation', _t), (_nm + '::half_turn', _h), (_nm + '::mirror', _m)]
_t, _h, _m = _sym_lemmas(rectangle_model, _rect_rot_env, 'shape.rectangle[rotated]')
LEMMAS += [('shape.rectangle[rotated]::integer_translation', _t), ('shape.rectangle[rotated]::half_turn', _h)]
_t, _h, _m = _sym_lemmas(hexagon_model, _hex_env, 'shape.hexagon')


def side_angle(n, rotate):
    return S.truediv(S.mul(n, L.PI), 3) if rotate else S.add(S.truediv(S.mul(n, L.PI), 3), S.truediv(L.PI, 6))


def _hex_half_turn(ctx):
    # instances of sin(x + pi) = -sin x, cos(x + pi) = -cos x at the side angles (theta_{n+3} = theta_n + pi)
    for rotate in (False, True):
        for n in range(3):
            a, b = side_angle(n, rotate), side_angle(n + 3, rotate)
            ctx.assume(S.z(S.eq(S.sub(b, a), L.PI)))      # sanity: really a half turn apart (else vacuous)
            ctx.assume(z3.And(S.z(L.sin_scalar(ctx, b)) == -S.z(L.sin_scalar(ctx, a)),
                              S.z(L.cos_scalar(ctx, b)) == -S.z(L.cos_scalar(ctx, a))),
                       'axiom:sin(x+pi)=-sin x, cos(x+pi)=-cos x (instantiated at the hexagon side angles)')
    # per-side step first (each is its own obligation), then used as a lemma for the min over the sides
    d, e = z3.Int('d'), z3.Int('e')
    for rotate in (False, True):
        for n in range(6):
            a, b = side_angle(n, rotate), side_angle((n + 3) % 6, rotate)
            rho_n = S.add(S.mul(d, L.sin_scalar(ctx, a)), S.mul(e, L.cos_scalar(ctx, a)))
            rho_m = S.add(S.mul(S.neg(d), L.sin_scalar(ctx, b)), S.mul(S.neg(e), L.cos_scalar(ctx, b)))
            f = S.z(S.eq(rho_n, rho_m))
            ctx.oblige('shape.hexagon::half_turn.side[%d,%s]' % (n, 'rot' if rotate else 'flat'), f)
            ctx.assume(f)
    _h(ctx)


LEMMAS += [('shape.hexagon::integer_translation', _t), ('shape.hexagon::half_turn', _hex_half_turn)]
