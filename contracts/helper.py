"""Contracts for lentil/helper.py (properties C20, C03)."""
import z3

from lvc import sym as S
from lvc import arrops as A
from lvc.spec import contract, ints, shape2, array, elems
from lvc.values import Arr, PyList
from lvc.interp import Raised
from contracts import util as U


# ---------------------------------------------------------------------------------------
c = contract('lentil.helper.mesh')


def _mesh_params(ctx):
    nr, nc = shape2(ctx, 'shape')
    angle = 0 if ctx.branch(ctx.fresh_bool('angle_is_zero')) else ctx.fresh_real('angle')
    return {'shape': (nr, nc), 'shift': (ctx.fresh_real('shift0'), ctx.fresh_real('shift1')), 'angle': angle}


def mesh_model(ctx, env):
    """rr[i, j] = i - floor(nr/2) - shift[0], cc[i, j] = j - floor(nc/2) - shift[1]  (angle = 0):
    the origin is at index floor(n/2) + shift on each axis."""
    nr, nc = elems(ctx, env['shape'])[:2]
    s0, s1 = elems(ctx, env.get('shift', (0, 0)))
    angle = env.get('angle', 0)
    base_r = lambda idx: S.to_real(S.sub(S.sub(idx[0], S.floordiv(nr, 2)), s0))
    base_c = lambda idx: S.to_real(S.sub(S.sub(idx[1], S.floordiv(nc, 2)), s1))
    if S.is_concrete(angle) and S.is_zero(angle):
        return (Arr.from_fn((nr, nc), 'float', base_r), Arr.from_fn((nr, nc), 'float', base_c))
    # rotation by `angle` degrees applied to the *shifted* coordinates (the shift is a translation of
    # the drawn shape in array coordinates, whatever the rotation)
    from lvc import nplib as L
    a = S.truediv(S.mul(angle, L.PI), 180)
    co, si = L.cos_scalar(ctx, a), L.sin_scalar(ctx, a)
    r = Arr.from_fn((nr, nc), 'float', lambda idx: S.add(S.mul(base_r(idx), co), S.mul(base_c(idx), si)))
    c = Arr.from_fn((nr, nc), 'float', lambda idx: S.add(S.mul(base_r(idx), S.neg(si)), S.mul(base_c(idx), co)))
    return (r, c)


c.params = _mesh_params
c.model = mesh_model


@c.post('origin_at_floor_half')
def _(ctx, env0, env, out):
    nr, nc = env0['shape']
    rr, cc = out.value
    i, j = ints(ctx, 'i', 'j')
    s0, s1 = env0['shift']
    if not (S.is_concrete(env0['angle']) and S.is_zero(env0['angle'])):
        return None
    return z3.Implies(z3.And(i >= 0, i < nr, j >= 0, j < nc),
                      z3.And(S.z(S.eq(rr.at((i, j)), S.sub(S.sub(i, S.floordiv(nr, 2)), s0))),
                             S.z(S.eq(cc.at((i, j)), S.sub(S.sub(j, S.floordiv(nc, 2)), s1)))))


# ---------------------------------------------------------------------------------------
c = contract('lentil.helper.boundary_slice')


def _bs_params(ctx):
    n, m = shape2(ctx, 'x')
    p0, p1 = ints(ctx, 'pad0', 'pad1')
    ctx.assume(z3.And(p0 >= 0, p1 >= 0))
    if ctx.branch(ctx.fresh_bool('pad_is_scalar')):
        pad = p0
        p1 = p0
    else:
        pad = (p0, p1)
    return {'x': array(ctx, 'x', (n, m), 'float'), 'threshold': ctx.fresh_real('thr'), 'pad': pad}


c.params = _bs_params
c.raises['IndexError'] = lambda ctx, env: z3.Not(U.nonempty(ctx, env['x'], env['threshold']))


def boundary_slice_model(ctx, env):
    x = A.as_array(ctx, env['x'])
    pad = env.get('pad', (0, 0))
    p = elems(ctx, pad) if not S.is_scalar(pad) else [pad, pad]
    if len(p) == 1:
        p = [p[0], p[0]]
    rmin, rmax, cmin, cmax = U.boundary_call_model(ctx, {'x': x, 'threshold': env.get('threshold', 0)})
    n, m = x.shape
    return (slice(S.max_(S.sub(rmin, p[0]), 0), S.min_(S.add(S.add(rmax, p[0]), 1), n)),
            slice(S.max_(S.sub(cmin, p[1]), 0), S.min_(S.add(S.add(cmax, p[1]), 1), m)))


c.call_model = boundary_slice_model


@c.post('bounding_box_widened_and_clamped')
def _(ctx, env0, env, out):
    x, thr = env0['x'], env0['threshold']
    pad = env0['pad']
    p0, p1 = (pad, pad) if S.is_scalar(pad) else pad
    n, m = x.shape
    rs, cs = out.value
    box = tuple(ctx.fresh_int('box%d' % k) for k in range(4))
    spec = U.bbox_spec(ctx, x, thr, box)
    want = z3.And(S.z(rs.start) == z3.If(box[0] - p0 >= 0, box[0] - p0, 0),
                  S.z(rs.stop) == z3.If(box[1] + p0 + 1 <= n, box[1] + p0 + 1, n),
                  S.z(cs.start) == z3.If(box[2] - p1 >= 0, box[2] - p1, 0),
                  S.z(cs.stop) == z3.If(box[3] + p1 + 1 <= m, box[3] + p1 + 1, m))
    return z3.Implies(spec, want)


@c.post('contains_support')
def _(ctx, env0, env, out):
    x, thr = env0['x'], env0['threshold']
    rs, cs = out.value
    i, j = ints(ctx, 'i', 'j')
    n, m = x.shape
    return z3.Implies(z3.And(i >= 0, i < n, j >= 0, j < m, S.z(S.gt(x.at((i, j)), thr))),
                      z3.And(S.z(rs.start) <= i, i < S.z(rs.stop), S.z(cs.start) <= j, j < S.z(cs.stop),
                             S.z(rs.start) >= 0, S.z(rs.stop) <= n, S.z(cs.start) >= 0, S.z(cs.stop) <= m))


# ---------------------------------------------------------------------------------------
c = contract('lentil.helper.slice_offset')


def _so_params(ctx):
    n, m = shape2(ctx, 'shape')
    if ctx.branch(ctx.fresh_bool('is_ellipsis')):
        return {'slice': Ellipsis, 'shape': (n, m)}
    r0, r1, c0, c1 = ints(ctx, 'r0', 'r1', 'c0', 'c1')
    ctx.assume(z3.And(0 <= r0, r0 < r1, r1 <= n, 0 <= c0, c0 < c1, c1 <= m))
    return {'slice': (slice(r0, r1), slice(c0, c1)), 'shape': (n, m)}


def slice_offset_model(ctx, env):
    """offset = start + floor(len/2) - floor(n/2) per axis, so that local index i of the slice
    carries the global coordinate (start + i) - floor(n/2) = i - floor(len/2) + offset."""
    sl = env['slice']
    if sl is Ellipsis:
        return (0, 0)
    n, m = elems(ctx, env['shape'])[:2]
    (rs, cs) = sl
    o0 = S.sub(S.add(rs.start, S.floordiv(S.sub(rs.stop, rs.start), 2)), S.floordiv(n, 2))
    o1 = S.sub(S.add(cs.start, S.floordiv(S.sub(cs.stop, cs.start), 2)), S.floordiv(m, 2))
    return (o0, o1)


c.params = _so_params
c.model = slice_offset_model


@c.post('local_index_keeps_global_coordinate')
def _(ctx, env0, env, out):
    if env0['slice'] is Ellipsis:
        return out.value == (0, 0)
    n, m = env0['shape']
    rs, cs = env0['slice']
    i, = ints(ctx, 'i')
    o0, o1 = elems(ctx, out.value)
    lr, lc = rs.stop - rs.start, cs.stop - cs.start
    return z3.And(rs.start + i - n / 2 == i - lr / 2 + S.z(o0), cs.start + i - m / 2 == i - lc / 2 + S.z(o1))
