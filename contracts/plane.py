"""Contracts for lentil/plane.py (C07, C03, C04, C17) and the Wavefront views (C07)."""
import z3

from lvc import sym as S
from lvc import arrops as A
from lvc import nplib as L
from lvc.spec import contract, ints, shape2, array, elems
from lvc.values import Arr, Obj, PyList
from lvc.interp import Raised
from lvc.prove import oblige_equal
from contracts import field as F
from contracts import extent as X
from contracts import util as U
from contracts import helper as H
from contracts import wavefront as W
from contracts.ptype import gptype, key, new


# ---------------------------------------------------------------------------------------
# symbolic planes

def binary_mask(ctx, name, shape):
    m = array(ctx, name, shape, 'float')
    q = [z3.Int(ctx._name('mq%d' % k)) for k in range(len(shape))]
    v = S.z(m.at(tuple(q)))
    ctx.assume(z3.ForAll(q, z3.Or(v == 0, v == 1)), axiom=True)
    return m


def mk_plane(ctx, name='p', amp='array', opd='array', mask='array', cls='lentil.plane.Plane', ptype='none',
             pixelscale=None, tilt=None, nseg=1):
    """A Plane in the state Plane.__init__ leaves it in (class invariant, proved for __init__):
    the mask is binary and _slice holds, per segment, the bounding slice of the mask's support."""
    klass = ctx.world.repo.klass(cls)
    n, m = shape2(ctx, name)
    attrs = {}
    attrs['_amplitude'] = array(ctx, name + '.amp', (n, m), 'float') if amp == 'array' else \
        array(ctx, name + '.amp', (), 'float')
    attrs['_opd'] = array(ctx, name + '.opd', (n, m), 'float') if opd == 'array' else array(ctx, name + '.opd', (), 'float')
    if mask == 'array':
        if nseg == 1:
            mk = binary_mask(ctx, name + '.mask', (n, m))
            boxes = [seg_box(ctx, name + '.box', mk, None, n, m)]
        else:
            mk = binary_mask(ctx, name + '.mask', (nseg, n, m))
            boxes = [seg_box(ctx, name + '.box%d' % k, mk, k, n, m) for k in range(nseg)]
        attrs['_mask'] = mk
        attrs['_slice'] = PyList([(slice(b[0], S.add(b[1], 1)), slice(b[2], S.add(b[3], 1))) for b in boxes])
    else:
        one = Arr.from_fn((), 'float', lambda idx: S.to_real(1))
        attrs['_mask'] = one
        attrs['_slice'] = PyList([Ellipsis])
    attrs['_pixelscale'] = pixelscale
    attrs['_diameter'] = None
    attrs['_ptype'] = gptype(ctx, ptype)
    attrs['tilt'] = tilt if tilt is not None else PyList([])
    return Obj(klass, attrs)


def seg_box(ctx, name, mask, k, n, m):
    """Bounding box (inclusive) of segment k's support: inside the array, contains every sample > 0."""
    b = tuple(ctx.fresh_int('%s.%s' % (name, f)) for f in ('rmin', 'rmax', 'cmin', 'cmax'))
    ctx.assume(z3.And(b[0] >= 0, b[0] <= b[1], b[1] < n, b[2] >= 0, b[2] <= b[3], b[3] < m))
    i, j = z3.Int(ctx._name('sbi')), z3.Int(ctx._name('sbj'))
    v = S.z(mask.at((i, j) if k is None else (k, i, j)))
    ctx.assume(z3.ForAll([i, j], z3.Implies(z3.And(i >= 0, i < n, j >= 0, j < m, v > 0),
                                            z3.And(b[0] <= i, i <= b[1], b[2] <= j, j <= b[3]))), axiom=True)
    return b


def plane_value(ctx, p, r, c, wl, seg=None):
    """amplitude * mask * exp(+2 pi i opd / wavelength) at plane coordinate (r, c); 0 outside the arrays."""
    amp, opd, mask = p.attrs['_amplitude'], p.attrs['_opd'], p.attrs['_mask']
    shape = None
    for a in (amp, opd):
        if a.ndim == 2:
            shape = a.shape
    if mask.ndim >= 2:
        shape = mask.shape[-2:]
    if shape is None:
        a = amp.at(())
        ph = S.truediv(S.mul(S.mul(2, L.PI), opd.at(())), wl)
        return S.mul(S.Cx(L.cos_scalar(ctx, ph), L.sin_scalar(ctx, ph)), S.mul(a, mask.at(())))
    n, m = shape
    i, j = S.add(r, S.floordiv(n, 2)), S.add(c, S.floordiv(m, 2))
    inside = S.and_(S.ge(i, 0), S.lt(i, n), S.ge(j, 0), S.lt(j, m))
    a = amp.at((i, j)) if amp.ndim == 2 else amp.at(())
    o = opd.at((i, j)) if opd.ndim == 2 else opd.at(())
    if mask.ndim == 2:
        mk = mask.at((i, j))
    elif mask.ndim == 3:
        mk = mask.at((seg, i, j))
    else:
        mk = mask.at(())
    ph = S.truediv(S.mul(S.mul(2, L.PI), o), wl)
    v = S.mul(S.Cx(L.cos_scalar(ctx, ph), L.sin_scalar(ctx, ph)), S.mul(a, mk))
    return S.ite(inside, v, S.Cx(0, 0))


# ---------------------------------------------------------------------------------------
# Wavefront views

def _wf_params(nfields):
    def params(ctx):
        R, C = shape2(ctx, 'w.shape')
        fields = F.mk_fields(ctx, nfields)
        return {'self': W.mk_wavefront(ctx, fields, shape=(R, C))}
    return params


def coherent_steps(ctx, name, n, w, pr, pc_, inr, final):
    """intensity = |sum of all fields|^2, proved in four steps (the solver does not find the nonlinear
    argument unprompted):
      D  the accumulated value is  sum_k |e_k|^2  over the reduced fields e_k        (definitional)
      A  at every sample at most one reduced field is non-zero                       (disjoint extents)
      B  sum_k e_k equals the sum of the original fields                             (reduce keeps the total)
      C  for complex numbers with pairwise one-zero:  |sum E_k|^2 = sum |E_k|^2      (pure algebra)
    A, B, C, D together give the clause of the property statement (coherent addition)."""
    interp = ctx.world.interp
    red = interp.call_function(ctx, ctx.world.repo.function('lentil.field.reduce'), [w.attrs['data']], {})
    es = [F.embed(ctx, f, pr, pc_) for f in red.items]
    acc = 0
    for e in es:
        acc = S.add(acc, S.cabs2(e))
    tag = '[n=%d]' % n
    ctx.oblige('%s::step_D_sum_of_intensities%s' % (name, tag), z3.Implies(inr, S.z(final(acc))))
    for i in range(len(es)):
        for j in range(i + 1, len(es)):
            zi = S.and_(S.eq(es[i].re, 0), S.eq(es[i].im, 0))
            zj = S.and_(S.eq(es[j].re, 0), S.eq(es[j].im, 0))
            ctx.oblige('%s::step_A_one_nonzero%s' % (name, tag), S.z(S.or_(zi, zj)))
    tot_red = S.Cx(0, 0)
    for e in es:
        tot_red = S.add(tot_red, e)
    ctx.oblige('%s::step_B_same_total%s' % (name, tag),
               F.cx_eq(tot_red, F.total(ctx, w.attrs['data'].items, pr, pc_)))
    # C: abstract algebra with fresh complex numbers
    E = [ctx.fresh_cx('E%d' % k) for k in range(len(es))]
    hyp = []
    for i in range(len(E)):
        for j in range(i + 1, len(E)):
            hyp.append(z3.Or(z3.And(E[i].re == 0, E[i].im == 0), z3.And(E[j].re == 0, E[j].im == 0)))
    tot = S.Cx(0, 0)
    ssum = 0
    for e in E:
        tot = S.add(tot, e)
        ssum = S.add(ssum, S.cabs2(e))
    ctx.oblige('%s::step_C_coherent_equals_incoherent_on_disjoint_support%s' % (name, tag),
               z3.Implies(z3.And(*hyp) if hyp else z3.BoolVal(True), S.z(S.eq(S.cabs2(tot), ssum))))


def _view_contracts(n):
    c = contract('lentil.wavefront.Wavefront.field#%d' % n, level='I')
    c.qualname = 'lentil.wavefront.Wavefront.field'
    c.tag = 'n=%d' % n
    c.params = _wf_params(n)

    @c.post('sum_of_embeddings')
    def _(ctx, env0, env, out):
        w = env0['self']
        R, C = w.attrs['shape']
        r, cc = ints(ctx, 'r', 'c')
        want = F.total(ctx, w.attrs['data'].items, r - R / 2, cc - C / 2)
        inr = z3.And(r >= 0, r < R, cc >= 0, cc < C)
        ctx.oblige('wavefront.Wavefront.field::shape[n=%d]' % n, z3.And(S.z(S.eq(out.value.shape[0], R)), S.z(S.eq(out.value.shape[1], C))))
        return z3.Implies(inr, F.cx_eq(out.value.at((r, cc)), want))

    c = contract('lentil.wavefront.Wavefront.intensity#%d' % n, level='I')
    c.qualname = 'lentil.wavefront.Wavefront.intensity'
    c.tag = 'n=%d' % n
    c.params = _wf_params(n)

    @c.post('equals_abs2_of_field')
    def _(ctx, env0, env, out):
        w = env0['self']
        R, C = w.attrs['shape']
        r, cc = ints(ctx, 'r', 'c')
        inr = z3.And(r >= 0, r < R, cc >= 0, cc < C)
        coherent_steps(ctx, 'wavefront.Wavefront.intensity', n, w, r - R / 2, cc - C / 2, inr,
                       lambda acc: S.eq(out.value.at((r, cc)), acc))
        return None

    c = contract('lentil.wavefront.Wavefront.insert#%d' % n, level='I')
    c.qualname = 'lentil.wavefront.Wavefront.insert'
    c.tag = 'n=%d' % n

    def params(ctx):
        env = _wf_params(n)(ctx)
        N, M = shape2(ctx, 'out')
        env['out'] = array(ctx, 'out', (N, M), 'float')
        env['weight'] = ctx.fresh_real('weight')
        return env
    c.params = params
    c.modifies = {'out'}

    @c.post('adds_weight_times_intensity')
    def _(ctx, env0, env, out):
        w = env0['self']
        N, M = env0['out'].shape
        r, cc = ints(ctx, 'r', 'c')
        tot = F.total(ctx, w.attrs['data'].items, r - N / 2, cc - M / 2)
        inr = z3.And(r >= 0, r < N, cc >= 0, cc < M)
        ctx.oblige('wavefront.Wavefront.insert::returns_out[n=%d]' % n, out.value is env['out'])
        coherent_steps(ctx, 'wavefront.Wavefront.insert', n, w, r - N / 2, cc - M / 2, inr,
                       lambda acc: S.eq(env['out'].at((r, cc)),
                                        S.add(env0['out'].at((r, cc)), S.mul(env0['weight'], acc))))
        return None


for _n in (1, 2, 3):
    _view_contracts(_n)


# ---------------------------------------------------------------------------------------
c = contract('lentil.plane._mul_pixelscale')


def _mp_params(ctx):
    def ps(name):
        if ctx.branch(ctx.fresh_bool(name + '_is_none')):
            return None
        return (ctx.fresh_real(name + '0'), ctx.fresh_real(name + '1'))
    return {'a_pixelscale': ps('a'), 'b_pixelscale': ps('b')}


c.params = _mp_params
c.raises['ValueError'] = lambda ctx, env: z3.BoolVal(False) if (env['a_pixelscale'] is None or env['b_pixelscale'] is None) \
    else z3.Or(env['a_pixelscale'][0] != env['b_pixelscale'][0], env['a_pixelscale'][1] != env['b_pixelscale'][1])


@c.post('reconciled')
def _(ctx, env0, env, out):
    a, b = env0['a_pixelscale'], env0['b_pixelscale']
    v = out.value
    if a is None and b is None:
        return v is None
    ref = a if a is not None else b
    return z3.And(S.z(S.eq(v[0], ref[0])), S.z(S.eq(v[1], ref[1])))


def mul_pixelscale_model(ctx, env):
    a, b = env['a_pixelscale'], env['b_pixelscale']
    if a is None:
        return b
    if b is None:
        return a
    ae, be = elems(ctx, a), elems(ctx, b)
    if not ctx.branch(S.and_(S.eq(ae[0], be[0]), S.eq(ae[1], be[1]))):
        raise Raised('ValueError', 'inconsistent pixelscales')
    return a


c.call_model = mul_pixelscale_model


# ---------------------------------------------------------------------------------------
# Plane.multiply: the field is multiplied pointwise by amplitude * exp(2 pi i opd / lambda) inside the
# mask and by zero outside it

def _single_pixel(ctx, env0):
    """Known-finding witness (C06 family): a product or a phasor that has exactly one element is
    treated by every later operation as an infinite constant."""
    p, w = env0['self'], env0['wavefront']
    conds = []
    sl = p.attrs['_slice'].items
    n, m = None, None
    mask = p.attrs['_mask']
    if mask.ndim >= 2:
        n, m = mask.shape[-2:]
    for s in sl:
        if s is Ellipsis:
            continue
        rs, cs = s
        h, wd = S.sub(rs.stop, rs.start), S.sub(cs.stop, cs.start)
        conds.append(S.z(S.and_(S.eq(h, 1), S.eq(wd, 1))))
        off = H.slice_offset_model(ctx, {'slice': s, 'shape': (n, m)})
        pe = X.array_extent_model(ctx, {'shape': (h, wd), 'shift': off, 'parent_shape': None})
        for f in w.attrs['data'].items:
            if f.attrs['data'].ndim != 2:
                continue
            e = X.intersection_extent_model(ctx, {'a': f.attrs['extent'], 'b': pe})
            conds.append(S.z(S.and_(S.eq(e[0], e[1]), S.eq(e[2], e[3]))))
    return z3.Or(*conds) if conds else z3.BoolVal(False)


def _scalar_field_offset(ctx, env0):
    conds = []
    for f in env0['wavefront'].attrs['data'].items:
        if f.attrs['data'].ndim == 0:
            ro, co = F.off(f)
            conds.append(z3.Or(S.z(S.ne(ro, 0)), S.z(S.ne(co, 0))))
    return z3.Or(*conds) if conds else z3.BoolVal(False)


def _mult_contract(tag, nfields, amp, opd, mask, nseg=1, cls='lentil.plane.Plane', ptype='none', scalar_field=False):
    c = contract('lentil.plane.Plane.multiply#%s' % tag, level='I')
    c.qualname = 'lentil.plane.Plane.multiply' if cls == 'lentil.plane.Plane' else cls + '.multiply'
    c.tag = tag

    def params(ctx):
        p = mk_plane(ctx, 'p', amp, opd, mask, cls=cls, ptype=ptype, nseg=nseg)
        if cls.endswith('Pupil'):
            p.attrs['focal_length'] = ctx.fresh_real('p.focal_length')
        if scalar_field:
            fields = [F.mk_field(ctx, 'f0', 'scalar')]
            wshape = ()
        else:
            fields = F.mk_fields(ctx, nfields)
            wshape = shape2(ctx, 'w.shape')
        w = W.mk_wavefront(ctx, fields, ptype='none' if ptype != 'image' else 'image', shape=wshape, pixelscale=None)
        return {'self': p, 'wavefront': w}
    c.params = params
    c.witnesses['single-pixel-product-or-phasor'] = _single_pixel
    c.witnesses['one-element-field-at-an-offset'] = _scalar_field_offset

    @c.post('pointwise_phasor')
    def _(ctx, env0, env, out):
        """tot(out)(r,c) = tot(in)(r,c) * sum_n plane_value_n(r,c), proved pair by pair:
          O1  every appended Field is embed(field_i) * plane_value_n            (one field, one segment)
          O2  a pair that contributes no Field has embed(field_i) * plane_value_n = 0 everywhere
          O3  the appended Fields are exactly the contributing pairs, in order
          O4  (sum_i A_i)(sum_n B_n) = sum_{i,n} A_i B_n                          (pure algebra)"""
        p, w0, res = env0['self'], env0['wavefront'], out.value
        wl = w0.attrs['_wavelength']
        r, cc = ints(ctx, 'r', 'c')
        mask = p.attrs['_mask']
        segs = list(range(nseg)) if mask.ndim == 3 else [None]
        n, m = (mask.shape[-2], mask.shape[-1]) if mask.ndim >= 2 else (None, None)
        got = res.attrs['data'].items
        k = 0
        for fi, f in enumerate(w0.attrs['data'].items):
            for sn, seg in enumerate(segs):
                sl = p.attrs['_slice'].items[sn]
                pv = plane_value(ctx, p, r, cc, wl, seg=seg)
                prod = S.mul(F.embed(ctx, f, r, cc), pv)
                contributes = True
                if sl is not Ellipsis and f.attrs['data'].ndim == 2:
                    rs, cs = sl
                    h, wd = S.sub(rs.stop, rs.start), S.sub(cs.stop, cs.start)
                    offp = H.slice_offset_model(ctx, {'slice': sl, 'shape': (n, m)})
                    pe = X.array_extent_model(ctx, {'shape': (h, wd), 'shift': offp, 'parent_shape': None})
                    contributes = ctx.branch(X.intersect_model(ctx, {'a': f.attrs['extent'], 'b': pe}))
                if contributes:
                    if k >= len(got):
                        ctx.oblige('plane.Plane.multiply::O3_fields_are_the_contributing_pairs[%s]' % tag, False)
                        return None
                    g = got[k]
                    ge = g.attrs['extent']
                    ctx.oblige('plane.Plane.multiply::O1_extent_invariant[%s]' % tag, F.wf_extent(ctx, g))
                    inside = z3.And(r >= S.z(ge[0]), r <= S.z(ge[1]), cc >= S.z(ge[2]), cc <= S.z(ge[3]))
                    from lvc.prove import with_hyp
                    eg = F.embed(ctx, g, r, cc)
                    if g.attrs['data'].ndim == 0:
                        oblige_equal(ctx, 'plane.Plane.multiply::O1_field_times_phasor[%s]' % tag, eg, prod)
                        k += 1
                        continue
                    with_hyp(ctx, [inside], lambda: oblige_equal(
                        ctx, 'plane.Plane.multiply::O1_inside_field_times_phasor[%s]' % tag, eg, prod))
                    with_hyp(ctx, [z3.Not(inside)], lambda: oblige_equal(
                        ctx, 'plane.Plane.multiply::O1_outside_product_vanishes[%s]' % tag, prod, S.Cx(0, 0)))
                    with_hyp(ctx, [z3.Not(inside)], lambda: oblige_equal(
                        ctx, 'plane.Plane.multiply::O1_outside_field_vanishes[%s]' % tag, eg, S.Cx(0, 0)))
                    k += 1
                else:
                    ctx.oblige('plane.Plane.multiply::O2_no_contribution[%s]' % tag, F.cx_eq(prod, S.Cx(0, 0)))
        ctx.oblige('plane.Plane.multiply::O3_fields_are_the_contributing_pairs[%s]' % tag, k == len(got))
        A_ = [ctx.fresh_cx('A%d' % i) for i in range(len(w0.attrs['data'].items))]
        B_ = [ctx.fresh_cx('B%d' % j) for j in range(len(segs))]
        sa, sb, sab = S.Cx(0, 0), S.Cx(0, 0), S.Cx(0, 0)
        for a in A_:
            sa = S.add(sa, a)
        for b in B_:
            sb = S.add(sb, b)
        for a in A_:
            for b in B_:
                sab = S.add(sab, S.mul(a, b))
        ctx.oblige('plane.Plane.multiply::O4_distributivity[%s]' % tag, F.cx_eq(S.mul(sa, sb), sab))
        ctx.oblige('plane.Plane.multiply::wavelength_kept[%s]' % tag,
                   S.z(S.eq(res.attrs['_wavelength'], wl)))
        ctx.oblige('plane.Plane.multiply::focal_length[%s]' % tag,
                   S.z(S.eq(res.attrs['focal_length'], p.attrs['focal_length'])) if cls.endswith('Pupil')
                   else (res.attrs['focal_length'] is w0.attrs['focal_length']
                         or S.z(S.eq(res.attrs['focal_length'], w0.attrs['focal_length']))))
        return None
    return c


_mult_contract('arrays', 1, 'array', 'array', 'array')
_mult_contract('scalar-amplitude', 1, 'scalar', 'array', 'array')
_mult_contract('scalar-opd', 1, 'array', 'scalar', 'array')
_mult_contract('two-fields', 2, 'array', 'array', 'array')
_mult_contract('two-segments', 1, 'array', 'array', 'array', nseg=2)
_mult_contract('two-segments-scalars', 1, 'scalar', 'scalar', 'array', nseg=2)
_mult_contract('default-plane', 1, 'scalar', 'scalar', 'scalar')
_mult_contract('default-plane-default-wavefront', 1, 'scalar', 'scalar', 'scalar', scalar_field=True)
_mult_contract('pupil', 1, 'array', 'array', 'array', cls='lentil.plane.Pupil', ptype='pupil')


# ---------------------------------------------------------------------------------------
# tilt elements (C04)

def tilt_lemmas():
    def tilt_shift_translation(ctx):
        """Tilt(x=a, y=b).shift(xs, ys, z) = (xs - z*b, ys - z*a): a pure translation."""
        a, b = ctx.fresh_real('a'), ctx.fresh_real('b')
        t = new(ctx, 'lentil.plane.Tilt', x=a, y=b)
        xs, ys, zz = ctx.fresh_real('xs'), ctx.fresh_real('ys'), ctx.fresh_real('z')
        r = ctx.world.interp.call_function(ctx, t.cls.methods['shift'], [t], {'xs': xs, 'ys': ys, 'z': zz, 'wavelength': ctx.fresh_real('wl')})
        ctx.oblige('C04::Tilt.shift.translation', z3.And(S.z(S.eq(r[0], S.sub(xs, S.mul(zz, b)))),
                                                        S.z(S.eq(r[1], S.sub(ys, S.mul(zz, a))))))

    def dispersive_first_order(ctx):
        """DispersiveTilt with a linear trace y = a x + b and a linear dispersion lambda = d0 s + d1:
        the displacement (dx, dy) does not depend on the incoming (xs, ys), lies on the trace, and sits at
        the arc length s that the dispersion polynomial maps to the wavelength."""
        a, b, d0, d1 = [ctx.fresh_real(n) for n in ('a', 'b', 'd0', 'd1')]
        ctx.assume(d0 != 0)
        t = new(ctx, 'lentil.plane.DispersiveTilt', trace=PyList([a, b]), dispersion=PyList([d0, d1]))
        wl = ctx.fresh_real('wl')
        res = []
        for k in range(2):
            xs, ys = ctx.fresh_real('xs%d' % k), ctx.fresh_real('ys%d' % k)
            r = ctx.world.interp.call_function(ctx, t.cls.methods['shift'], [t], {'wavelength': wl, 'xs': xs, 'ys': ys})
            res.append((S.sub(r[0], xs), S.sub(r[1], ys)))
        (dx0, dy0), (dx1, dy1) = res
        ctx.oblige('C04::DispersiveTilt.shift.translation', z3.And(S.z(S.eq(dx0, dx1)), S.z(S.eq(dy0, dy1))))
        ctx.oblige('C04::DispersiveTilt.shift.on_trace', S.z(S.eq(dy0, S.add(S.mul(a, dx0), b))))
        s = L.sqrt_scalar(ctx, S.add(1, S.mul(a, a)))
        dist = S.mul(dx0, s)
        ctx.oblige('C04::DispersiveTilt.shift.arc_length_maps_to_wavelength', S.z(S.eq(S.add(S.mul(d0, dist), d1), wl)))

    def order_independent(ctx):
        """Displacements of several tilt elements add and do not depend on their order."""
        t0, t1 = W.mk_tilt(ctx, 't0'), W.mk_tilt(ctx, 't1')
        du = (ctx.fresh_real('du_r'), ctx.fresh_real('du_c'))
        ctx.assume(z3.And(du[0] > 0, du[1] > 0))
        zz, wl, os_ = ctx.fresh_real('z'), ctx.fresh_real('wl'), ctx.fresh_int('os')
        ctx.assume(os_ >= 1)
        shift = ctx.world.repo.function('lentil.field.Field.shift')
        ctx.no_model = {'lentil.field.Field.shift'}
        out = []
        for order in ((t0, t1), (t1, t0)):
            f = F.mk_field(ctx, 'f', 'array', tilt=PyList(list(order)))
            out.append(ctx.world.interp.call_function(ctx, shift, [f], {'z': zz, 'wavelength': wl, 'pixelscale': du, 'oversample': os_}))
        ctx.oblige('C04::Field.shift.order_independent', z3.And(S.z(S.eq(out[0][0], out[1][0])), S.z(S.eq(out[0][1], out[1][1]))))

    def ramp_equals_metadata(ctx):
        """A linear OPD ramp t * (r dx) on an axis multiplies the pupil by exp(2 pi i t r dx / lambda); with
        alpha = dx du / (lambda z os) this is the Fraunhofer kernel evaluated at u - s with s = z t os / du on the
        SAME axis: exp(2 pi i t r dx/lambda) e(alpha, r, u) = e(alpha, r, u - s)  (phases equal)."""
        t, dx, du, lam, zz = [ctx.fresh_real(n) for n in ('t', 'dx', 'du', 'lam', 'z')]
        os_ = ctx.fresh_int('os')
        r, u = ctx.fresh_int('r'), ctx.fresh_real('u')
        ctx.assume(z3.And(dx > 0, du > 0, lam > 0, zz > 0, os_ >= 1))
        alpha = S.truediv(S.mul(dx, du), S.mul(S.mul(lam, zz), os_))
        s = S.truediv(S.mul(S.mul(zz, t), os_), du)
        twopi = S.mul(2, L.PI)
        lhs = S.sub(S.truediv(S.mul(S.mul(S.mul(twopi, t), r), dx), lam), S.mul(S.mul(S.mul(twopi, alpha), r), u))
        rhs = S.neg(S.mul(S.mul(S.mul(twopi, alpha), r), S.sub(u, s)))
        ctx.oblige('C04::ramp_phase_equals_shifted_kernel_phase', S.z(S.eq(lhs, rhs)))

    def wavefront_tilt_argument(ctx):
        """Wavefront(tilt=[rx, ry]) wraps Tilt(x=rx, y=ry) into its initial field."""
        rx, ry = ctx.fresh_real('rx'), ctx.fresh_real('ry')
        w = new(ctx, 'lentil.wavefront.Wavefront', ctx.fresh_real('wl'), tilt=PyList([rx, ry]))
        f = w.attrs['data'].items[0]
        ts = f.attrs['tilt'].items
        ok = len(ts) == 1 and ts[0].cls.name == 'Tilt'
        ctx.oblige('C04::Wavefront.tilt.wrapped', ok)
        if ok:
            # Tilt stores (x, y) swapped: self.x = y angle, self.y = x angle
            ctx.oblige('C04::Wavefront.tilt.angles', z3.And(S.z(S.eq(ts[0].attrs['y'], rx)), S.z(S.eq(ts[0].attrs['x'], ry))))
    def arc_length_is_signed(ctx):
        """DispersiveTilt._arc_len(f, a, b) is the quadrature of f from a to b with the limits in THAT order (a
        signed arc length: negative distances along the trace must stay negative for the inversion used with
        higher-order traces); scipy.integrate.quad abstract."""
        cls = ctx.world.repo.klass('lentil.plane.DispersiveTilt')
        a, b = ctx.fresh_real('a'), ctx.fresh_real('b')
        f = cls.find(ctx.world.repo, '_trace_dist_func')
        res = ctx.world.interp.call_function(ctx, cls.find(ctx.world.repo, '_arc_len'), [f, a, b], {})
        calls = ctx.__dict__.get('ghost_quad_calls', [])
        ctx.oblige('C04::DispersiveTilt._arc_len.one_quadrature', len(calls) == 1, 'structure')
        if len(calls) == 1:
            ctx.oblige('C04::DispersiveTilt._arc_len.limits_in_the_given_order',
                       S.and_(S.eq(calls[0]['a'], a), S.eq(calls[0]['b'], b), S.eq(res, calls[0]['value'])))
            ctx.oblige('C04::DispersiveTilt._arc_len.integrand_is_the_one_given', calls[0]['func'] is f)

    return [('C04::DispersiveTilt._arc_len', arc_length_is_signed), ('C04::Tilt.shift', tilt_shift_translation), ('C04::DispersiveTilt.first_order', dispersive_first_order),
            ('C04::Field.shift.order', order_independent), ('C04::ramp_equals_metadata', ramp_equals_metadata),
            ('C04::Wavefront(tilt=)', wavefront_tilt_argument)]


# multiply hands every recorded tilt of a segment to its phasor (history clause: fit, change OPD, fit again)
def _mult_tilts_contract():
    c = contract('lentil.plane.Plane.multiply#fitted-tilts', level='I')
    c.qualname = 'lentil.plane.Plane.multiply'
    c.tag = 'fitted-tilts'

    def params(ctx):
        nfit = 1 if ctx.branch(ctx.fresh_bool('one_fit')) else 2
        tilts = [W.mk_tilt(ctx, 'T%d' % k) for k in range(2 * nfit)]
        p = mk_plane(ctx, 'p', 'array', 'array', 'array', nseg=2, tilt=PyList(tilts))
        f = F.mk_field(ctx, 'f0', 'array', tilt=PyList([W.mk_tilt(ctx, 'tw')]))
        h, w_ = f.attrs['data'].shape
        ctx.assume(z3.Not(z3.And(h == 1, w_ == 1)))
        w = W.mk_wavefront(ctx, [f], ptype='none', shape=shape2(ctx, 'w.shape'), pixelscale=None)
        return {'self': p, 'wavefront': w}
    c.params = params
    c.witnesses['single-pixel-product-or-phasor'] = _single_pixel

    @c.post('every_recorded_tilt_of_the_segment_is_applied')
    def _(ctx, env0, env, out):
        p, w0, res = env['self'], env['wavefront'], out.value
        tl = p.attrs['tilt'].items
        size = 2
        f = w0.attrs['data'].items[0]
        got = res.attrs['data'].items
        mask = p.attrs['_mask']
        n, m = mask.shape[-2], mask.shape[-1]
        k = 0
        for seg in range(size):
            sl = p.attrs['_slice'].items[seg]
            rs, cs = sl
            offp = H.slice_offset_model(ctx, {'slice': sl, 'shape': (n, m)})
            pe = X.array_extent_model(ctx, {'shape': (S.sub(rs.stop, rs.start), S.sub(cs.stop, cs.start)), 'shift': offp, 'parent_shape': None})
            if ctx.branch(X.intersect_model(ctx, {'a': f.attrs['extent'], 'b': pe})):
                if k >= len(got):
                    return False
                want = list(f.attrs['tilt'].items) + [tl[j] for j in range(seg, len(tl), size)]
                have = got[k].attrs['tilt'].items
                if getattr(ctx, 'replaying', False):
                    # object identity does not survive the trip through the native runner: compare angles
                    same = len(have) == len(want) and z3.And(*[z3.And(S.z(S.eq(a.attrs['x'], b.attrs['x'])),
                                                                      S.z(S.eq(a.attrs['y'], b.attrs['y'])))
                                                               for a, b in zip(have, want)], z3.BoolVal(True))
                else:
                    same = len(have) == len(want) and all(a is b for a, b in zip(have, want))
                ctx.oblige('plane.Plane.multiply::tilts_of_segment[fitted-tilts]', same,
                           info={'have': len(have), 'want': len(want)})
                k += 1
        return k == len(got)
    return c


_mult_tilts_contract()


# ---------------------------------------------------------------------------------------
# Plane.__init__: class invariant and frame (C10)

c = contract('lentil.plane.Plane.__init__', level='P')


def _pinit_params(ctx):
    cls = ctx.world.repo.klass('lentil.plane.Plane')
    n, m = shape2(ctx, 'a')
    amp = array(ctx, 'amplitude', (n, m), 'float')
    opd = array(ctx, 'opd', (n, m), 'float')
    mask = array(ctx, 'mask', (n, m), 'float') if ctx.branch(ctx.fresh_bool('mask_given')) else None
    from lvc.values import PyDict
    return {'self': Obj(cls), 'amplitude': amp, 'opd': opd, 'mask': mask, 'pixelscale': None, 'diameter': None,
            'ptype': None, 'kwargs': PyDict({})}


c.params = _pinit_params
c.modifies = {'self'}
def _pinit_empty(ctx, env):
    src = env['mask'] if env['mask'] is not None else env['amplitude']
    n, m = src.shape
    i, j = z3.Int(ctx._name('ei')), z3.Int(ctx._name('ej'))
    return z3.Not(z3.Exists([i, j], z3.And(i >= 0, i < S.z(n), j >= 0, j < S.z(m), S.z(S.ne(src.at((i, j)), 0)))))


c.raises['IndexError'] = _pinit_empty


@c.post('mask_is_a_binary_copy')
def _(ctx, env0, env, out):
    p = env['self']
    src = env0['mask'] if env0['mask'] is not None else env0['amplitude']
    mk = p.attrs['_mask']
    i, j = ints(ctx, 'i', 'j')
    n, m = src.shape
    inr = z3.And(i >= 0, i < n, j >= 0, j < m)
    v = S.z(mk.at((i, j)))
    ctx.oblige('plane.Plane.__init__::mask_is_not_the_callers_array',
               env['mask'] is None or mk.cell is not env['mask'].cell)
    return z3.Implies(inr, v == z3.If(S.z(S.ne(src.at((i, j)), 0)), z3.RealVal(1), z3.RealVal(0)))


# numpy's != against threshold 0: boundary uses x > 0; for a binary mask both agree
c.ctx_flags = {'bbox_quantified': True}


# ---------------------------------------------------------------------------------------
# fit_tilt (frames and representation; the least-squares value itself is a bounded stand-in, C04)

def _fit_contract(tag, nseg, inplace):
    c = contract('lentil.plane.Plane.fit_tilt#%s' % tag, level='P')
    c.qualname = 'lentil.plane.Plane.fit_tilt'
    c.tag = tag

    def params(ctx):
        p = mk_plane(ctx, 'p', 'array', 'array', 'array', nseg=nseg,
                     pixelscale=(ctx.fresh_real('ps0'), ctx.fresh_real('ps1')),
                     tilt=PyList([W.mk_tilt(ctx, 'old%d' % k) for k in range(nseg)]) if 'second' in tag else None)
        return {'self': p, 'inplace': inplace}
    c.params = params
    c.modifies = {'self'} if inplace else set()

    @c.post('records_one_tilt_per_segment')
    def _(ctx, env0, env, out):
        res, p0 = out.value, env0['self']
        before = len(p0.attrs['tilt'].items)
        after = len(res.attrs['tilt'].items)
        n_, m_ = p0.attrs['_opd'].shape
        single = ctx.branch(S.and_(S.eq(n_, 1), S.eq(m_, 1)))       # a one-sample OPD is returned unfitted
        ok = after == before + (0 if single else nseg)
        ok = ok and ((res is env['self']) == inplace)
        ok = ok and all(t.cls.name == 'Tilt' for t in res.attrs['tilt'].items[before:])
        if not inplace and not single:
            ok = ok and res.attrs['_opd'].cell is not env['self'].attrs['_opd'].cell \
                and res.attrs['tilt'] is not env['self'].attrs['tilt']
        return ok

    @c.post('removed_ramp_is_the_recorded_tilt')
    def _(ctx, env0, env, out):
        """C04: what fit_tilt takes out of the OPD is exactly the ramp its recorded Tilt stands for, and the
        fit is the least-squares problem with piston, x-ramp and y-ramp columns over the segment mask:
        new_opd + mask_k * (x_k * r * ps_row - y_k * c * ps_col) summed over segments = old_opd * (sum of masks),
        (r, c) = index - floor(n/2); lstsq itself is abstract (its solution is whatever numpy returns)."""
        if getattr(ctx, 'replaying', False):
            return None
        res, p0 = out.value, env0['self']
        opd0, mask = p0.attrs['_opd'], p0.attrs['_mask']
        n_, m_ = opd0.shape
        if ctx.branch(S.and_(S.eq(n_, 1), S.eq(m_, 1))):
            return None
        ps = p0.attrs['_pixelscale']
        calls = ctx.__dict__.get('ghost_lstsq_calls', [])
        name = 'plane.Plane.fit_tilt::%%s[%s]' % tag
        ctx.oblige(name % 'one_least_squares_fit_per_segment', len(calls) == nseg, 'structure', info={'calls': len(calls)})
        if len(calls) != nseg:
            return None
        before = len(p0.attrs['tilt'].items)
        new = res.attrs['tilt'].items[before:]
        i, j = ints(ctx, 'i', 'j')
        inr = [i >= 0, i < S.z(n_), j >= 0, j < S.z(m_)]
        r = S.sub(i, S.floordiv(n_, 2))
        cc = S.sub(j, S.floordiv(m_, 2))
        flat = S.add(S.mul(i, m_), j)
        from lvc.prove import with_hyp
        total_ramp = 0
        for k in range(nseg):
            mk = mask.at((i, j)) if mask.ndim == 2 else mask.at((k, i, j))
            A_, b_, x_ = calls[k]['A'], calls[k]['b'], calls[k]['x']
            # design matrix: piston, row ramp, column ramp (negative), each times the segment mask; rhs: the OPD
            with_hyp(ctx, inr, lambda A_=A_, b_=b_, mk=mk, k=k: ctx.oblige(
                name % ('least_squares_problem_is_piston_x_y_over_the_mask[seg %d]' % k),
                S.and_(S.eq(A_.shape[1], 3), S.eq(A_.at((flat, 0)), mk),
                       S.eq(A_.at((flat, 1)), S.mul(S.mul(r, ps[0]), mk)),
                       S.eq(A_.at((flat, 2)), S.mul(S.mul(S.neg(cc), ps[1]), mk)),
                       S.eq(b_.at((flat,)), opd0.at((i, j)))), 'structure'))
            t = new[k]
            # Tilt(x=a, y=b) keeps its x angle in .y and its y angle in .x (see C04::Wavefront.tilt.angles)
            xa, ya = t.attrs['y'], t.attrs['x']
            ctx.oblige(name % ('recorded_tilt_is_the_fitted_x_y[seg %d]' % k),
                       S.and_(S.eq(xa, x_.at((1,))), S.eq(ya, x_.at((2,)))), 'structure')
            ramp = S.mul(S.add(S.mul(S.mul(xa, r), ps[0]), S.mul(S.mul(ya, S.neg(cc)), ps[1])), mk)
            total_ramp = S.add(total_ramp, ramp)
        if nseg == 1:
            want = S.sub(opd0.at((i, j)), total_ramp)
        else:
            msum = 0
            for k in range(nseg):
                msum = S.add(msum, mask.at((k, i, j)))
            want = S.sub(S.mul(opd0.at((i, j)), msum), total_ramp)
        opd1 = A.as_array(ctx, res.attrs['_opd'])
        with_hyp(ctx, inr, lambda: ctx.oblige(name % 'opd_plus_recorded_ramp_is_the_original_opd', S.eq(opd1.at((i, j)), want)))
        return None
    return c


_fit_contract('copy', 1, False)
_fit_contract('inplace', 1, True)
_fit_contract('segmented-copy', 2, False)
_fit_contract('second-fit-inplace', 2, True)


# ---------------------------------------------------------------------------------------
# rescale / resample (C17): bookkeeping; the interpolation itself (scipy map_coordinates) is abstract

def util_rescale_call_model(ctx, env):
    """Abstract lentil.util.rescale: an array of ceil(n * scale) samples per axis whose content is
    unconstrained, except that it reproduces the input exactly at scale 1 when no unitary renormalisation
    is requested (spline interpolation at its own knots; library contract of scipy map_coordinates)."""
    img = A.as_array(ctx, env['img'])
    scale = env['scale']
    shape = env.get('shape')
    if shape is not None or img.ndim != 2:
        raise S.Unsupported('rescale model: explicit shape / non 2-D')
    n, m = img.shape
    N, M = S.ceil_(S.mul(n, scale)), S.ceil_(S.mul(m, scale))
    ctx.assumptions.add('callee contract:lentil.util.rescale (shape ceil(n*scale), identity at scale 1 when not unitary) - discharged against the body for real images in lentil.util.rescale#cubic-nearest / #order0-constant')
    out = A.fresh_array(ctx, 'rescaled', (N, M), 'float' if img.dtype != 'complex' else 'complex')
    ctx.__dict__.setdefault('ghost_rescale_calls', []).append({'img': img.snapshot(), 'scale': scale, 'out': out,
                                                                'order': env.get('order'), 'unitary': env.get('unitary')})
    if not env.get('unitary', True):
        snap = img.snapshot()
        i, j = z3.Int(ctx._name('rsi')), z3.Int(ctx._name('rsj'))
        ctx.assume(z3.Implies(S.z(S.eq(scale, 1)), z3.ForAll([i, j], z3.Implies(
            z3.And(i >= 0, i < S.z(n), j >= 0, j < S.z(m)), S.z(S.eq(out.at((i, j)), snap.at((i, j))))))), axiom=True)
    return out


cr = contract('lentil.util.rescale')
cr.call_model = util_rescale_call_model


def _rescale_contract(tag, amp, opd, nseg, method):
    c = contract('lentil.plane.Plane.%s#%s' % (method, tag), level='P')
    c.qualname = 'lentil.plane.Plane.%s' % method
    c.tag = tag

    def params(ctx):
        ps = (ctx.fresh_real('ps0'), ctx.fresh_real('ps1'))
        ctx.assume(z3.And(ps[0] > 0, ps[1] > 0))
        if method == 'resample':
            ctx.assume(ps[0] == ps[1])
        p = mk_plane(ctx, 'p', amp, opd, 'array', nseg=nseg, pixelscale=ps)
        s = ctx.fresh_real('scale' if method == 'rescale' else 'new_pixelscale')
        ctx.assume(s > 0)
        return {'self': p, ('scale' if method == 'rescale' else 'pixelscale'): s}
    c.params = params
    # the interpolated mask is abstract here: an empty result makes boundary() raise, which is numpy's
    # behaviour for an aperture that vanishes under down-sampling, not a bookkeeping error
    c.may_raise = {'IndexError'}

    @c.post('bookkeeping')
    def _(ctx, env0, env, out):
        p0, res = env0['self'], out.value
        ps = p0.attrs['_pixelscale']
        s = env0['scale'] if method == 'rescale' else S.truediv(ps[0], env0['pixelscale'])
        mask0 = p0.attrs['_mask']
        n, m = mask0.shape[-2], mask0.shape[-1]
        N, M = S.ceil_(S.mul(n, s)), S.ceil_(S.mul(m, s))
        name = 'plane.Plane.%s' % method
        rps = res.attrs['_pixelscale']
        ctx.oblige('%s::pixelscale_divided_by_scale[%s]' % (name, tag),
                   z3.And(S.z(S.eq(S.mul(rps[0], s), ps[0])), S.z(S.eq(S.mul(rps[1], s), ps[1]))))
        mk = res.attrs['_mask']
        ctx.oblige('%s::mask_shape_is_ceil_n_times_scale[%s]' % (name, tag),
                   z3.And(S.z(S.eq(mk.shape[-2], N)), S.z(S.eq(mk.shape[-1], M)),
                          z3.BoolVal(mk.ndim == mask0.ndim and (mk.ndim == 2 or mk.shape[0] == mask0.shape[0]))))
        for nm in ('_amplitude', '_opd'):
            a0, a1 = p0.attrs[nm], res.attrs[nm]
            if a0.ndim == 2:
                ctx.oblige('%s::%s_shape[%s]' % (name, nm, tag), z3.And(S.z(S.eq(a1.shape[0], N)), S.z(S.eq(a1.shape[1], M))))
            else:
                ctx.oblige('%s::%s_scalar_kept[%s]' % (name, nm, tag), a1.ndim == 0 and S.eq(a1.at(()), a0.at(())) is not False)
        # binary integer mask
        q = ints(ctx, 'q0', 'q1', 'q2')[:mk.ndim]
        v = mk.at(tuple(q))
        ctx.oblige('%s::mask_binary[%s]' % (name, tag), z3.Or(S.z(S.eq(v, 0)), S.z(S.eq(v, 1))))
        ctx.oblige('%s::mask_integer[%s]' % (name, tag), mk.dtype == 'int')
        ctx.oblige('%s::segment_slices_recomputed[%s]' % (name, tag), len(res.attrs['_slice'].items) == len(p0.attrs['_slice'].items))
        ctx.oblige('%s::returns_a_new_plane[%s]' % (name, tag), res is not env['self'])
        shared = [k for k, v in res.attrs.items() if isinstance(v, (PyList, Arr)) and k in env['self'].attrs
                  and (v is env['self'].attrs[k] or (isinstance(v, Arr) and v.cell is env['self'].attrs[k].cell))]
        ctx.oblige('%s::shares_no_mutable_state_with_the_original[%s]' % (name, tag), not shared, info={'shared': shared})
        # amplitude is divided by the scale exactly once; the OPD is not
        calls = ctx.__dict__.get('ghost_rescale_calls', [])
        amp_calls = [k for k in calls if k['order'] == 3]
        if p0.attrs['_amplitude'].ndim == 2 and amp_calls:
            i, j = ints(ctx, 'i', 'j')
            a1 = res.attrs['_amplitude']
            ctx.oblige('%s::amplitude_divided_by_scale[%s]' % (name, tag),
                       z3.Implies(z3.And(i >= 0, i < S.z(N), j >= 0, j < S.z(M)),
                                  S.z(S.eq(S.mul(a1.at((i, j)), s), amp_calls[0]['out'].at((i, j))))))
        # identity at scale 1
        from lvc.prove import with_hyp
        if p0.attrs['_opd'].ndim == 2:
            i, j = ints(ctx, 'i', 'j')
            with_hyp(ctx, [S.z(S.eq(s, 1)), i >= 0, i < S.z(n), j >= 0, j < S.z(m)], lambda: (
                ctx.oblige('%s::identity_at_scale_1.opd[%s]' % (name, tag), S.z(S.eq(res.attrs['_opd'].at((i, j)), p0.attrs['_opd'].at((i, j))))),
                ctx.oblige('%s::identity_at_scale_1.amplitude[%s]' % (name, tag),
                           S.z(S.eq(res.attrs['_amplitude'].at((i, j)), p0.attrs['_amplitude'].at((i, j))))
                           if p0.attrs['_amplitude'].ndim == 2 else True)))
        # physical extent preserved to within one sample: (ps/s) * ceil(n s) in [ps n, ps n + ps/s)
        ext = S.mul(rps[0], N)
        ctx.oblige('%s::extent_within_one_sample[%s]' % (name, tag),
                   z3.And(S.z(S.ge(ext, S.mul(ps[0], n))), S.z(S.lt(ext, S.add(S.mul(ps[0], n), rps[0])))))
        return None
    return c


_rescale_contract('arrays', 'array', 'array', 1, 'rescale')
_rescale_contract('scalar-opd', 'array', 'scalar', 1, 'rescale')
_rescale_contract('two-segments', 'array', 'array', 2, 'rescale')
_rescale_contract('arrays', 'array', 'array', 1, 'resample')
