"""Contracts for lentil/propagate.py (C02, C05, C09; C04 through Field.shift)."""
import z3

from lvc import sym as S
from lvc import arrops as A
from lvc import nplib as L
from lvc.spec import contract, ints, shape2, array, elems
from lvc.values import Arr, Obj, PyList
from lvc.interp import Raised
from lvc.prove import oblige_equal
from contracts import field as F
from contracts import extent as X
from contracts import fourier as FT
from contracts import util as U
from contracts import wavefront as W
from contracts.ptype import gptype, key


# ---------------------------------------------------------------------------------------
c = contract('lentil.propagate._dft_alpha', level='I')


def _alpha_params(ctx):
    dx = (ctx.fresh_real('dx_r'), ctx.fresh_real('dx_c'))
    du = (ctx.fresh_real('du_r'), ctx.fresh_real('du_c'))
    wl, zz, os_ = ctx.fresh_real('wavelength'), ctx.fresh_real('z'), ctx.fresh_int('oversample')
    ctx.assume(z3.And(wl > 0, zz > 0, os_ >= 1))
    return {'dx': dx, 'du': du, 'wavelength': wl, 'z': zz, 'oversample': os_}


def dft_alpha_model(ctx, env):
    """alpha_k = dx_k du_k / (wavelength z oversample) on each axis k (row, column)."""
    dx, du = elems(ctx, env['dx']), elems(ctx, env['du'])
    den = S.mul(S.mul(env['wavelength'], env['z']), env['oversample'])
    return (S.truediv(S.mul(dx[0], du[0]), den), S.truediv(S.mul(dx[1], du[1]), den))


c.params = _alpha_params
c.model = dft_alpha_model


# ---------------------------------------------------------------------------------------
# Field.shift  (statement of C04: x tilt -> +rows, y tilt -> -columns, per-axis pixel scale)

c = contract('lentil.field.Field.shift', level='I')


def _shift_params(ctx):
    n = ctx.fresh_int('ntilts')
    tilts = []
    if ctx.branch(n == 0):
        pass
    elif ctx.branch(n == 1):
        tilts = [W.mk_tilt(ctx, 't0')]
    else:
        tilts = [W.mk_tilt(ctx, 't0'), W.mk_tilt(ctx, 't1')]
    f = F.mk_field(ctx, 'f', 'array', tilt=PyList(tilts))
    du = (ctx.fresh_real('du_r'), ctx.fresh_real('du_c'))
    ctx.assume(z3.And(du[0] > 0, du[1] > 0))
    os_ = ctx.fresh_int('oversample')
    zz = ctx.fresh_real('z')
    ctx.assume(os_ >= 1)
    return {'self': f, 'z': zz, 'wavelength': ctx.fresh_real('wavelength'), 'pixelscale': du,
            'oversample': os_, 'indexing': 'ij'}


def angular_shift_rc(ctx, tilts, z, du, oversample):
    """Total displacement in output samples (row, col) of a list of Tilt objects with angles (x, y):
    row += z * x * oversample / du_row,  col -= z * y * oversample / du_col   (statement of C04)."""
    r, cc = 0, 0
    for t in tilts:
        tx, ty = t.attrs['_ghost_angles']
        r = S.add(r, S.truediv(S.mul(S.mul(z, tx), oversample), du[0]))
        cc = S.sub(cc, S.truediv(S.mul(S.mul(z, ty), oversample), du[1]))
    return (r, cc)


c.params = _shift_params


@c.post('x_tilt_to_plus_rows_y_tilt_to_minus_columns')
def _(ctx, env0, env, out):
    tilts = env0['self'].attrs['tilt'].items
    want = angular_shift_rc(ctx, tilts, env0['z'], env0['pixelscale'], env0['oversample'])
    got = out.value
    return z3.And(S.z(S.eq(got[0], want[0])), S.z(S.eq(got[1], want[1])))


_R = z3.RealSort()
SHIFT_R = z3.Function('field_shift_r', z3.IntSort(), _R, _R, _R, _R, z3.IntSort(), _R)
SHIFT_C = z3.Function('field_shift_c', z3.IntSort(), _R, _R, _R, _R, z3.IntSort(), _R)


def shift_terms(ctx, field, z, wl, du, os_):
    """The (row, col) displacement of `field` as opaque terms: a function of the field's tilt list and
    of the arguments of Field.shift.  Their value is pinned down by Field.shift's own contract
    (clause x_tilt_to_plus_rows_y_tilt_to_minus_columns); callers reason about them modularly."""
    fid = field.attrs.get('_ghost_id')
    tilts = field.attrs['tilt']
    if fid is None or len(tilts.items) == 0:
        return None
    args = [S.z(fid), S.zreal(z), S.zreal(wl), S.zreal(du[0]), S.zreal(du[1]), S.z(os_)]
    return (SHIFT_R(*args), SHIFT_C(*args))


def field_shift_call_model(ctx, env):
    f = env['self']
    if env.get('indexing', 'ij') != 'ij' or env['pixelscale'] is None:
        raise S.Unsupported('Field.shift model: only the ij form used by propagate_dft')
    du = elems(ctx, env['pixelscale'])
    t = shift_terms(ctx, f, env['z'], env['wavelength'], du, env['oversample'])
    if t is None:
        if len(f.attrs['tilt'].items) == 0:
            return (0, 0)
        raise S.Unsupported('Field.shift model: field without ghost id')
    ctx.assumptions.add('contract:lentil.field.Field.shift (displacement as an opaque function of its arguments)')
    return t


REGISTRY_SHIFT = c
c.call_model = field_shift_call_model


# ---------------------------------------------------------------------------------------
# propagate_dft

def fraunhofer_expected(ctx, field, alpha, window_shape, offset, total_shift):
    """The unitary Fraunhofer sum of `field` sampled on a window of `window_shape` samples whose centre
    sample (index floor(k/2)) sits at plane coordinate `offset`, for an image displaced by total_shift:
    element (i, j) is evaluated at output coordinate (i - floor(k/2) + offset) - total_shift."""
    sh = (S.sub(total_shift[0], offset[0]), S.sub(total_shift[1], offset[1]))
    return FT.dft2_spec_array(ctx, field.attrs['data'], alpha, window_shape, sh, F.off(field), True)


def _prop_params(ctx, nfields=1, with_mask=None, explicit_shapes=False):
    fields = []
    for k in range(nfields):
        ntilt = ctx.fresh_int('f%d.ntilts' % k)
        tilts = [] if ctx.branch(ntilt == 0) else [W.mk_tilt(ctx, 'f%d.t0' % k)]
        fields.append(F.mk_field(ctx, 'f%d' % k, 'array', tilt=PyList(tilts)))
        fields[-1].attrs['_ghost_id'] = 1000 + k
    wshape = shape2(ctx, 'w.shape')
    ptype = 'pupil' if ctx.branch(ctx.fresh_bool('from_pupil')) else 'image'
    w = W.mk_wavefront(ctx, fields, ptype=ptype, shape=wshape)
    du = (ctx.fresh_real('du_r'), ctx.fresh_real('du_c'))
    ctx.assume(z3.And(du[0] > 0, du[1] > 0))
    os_ = ctx.fresh_int('oversample')
    ctx.assume(os_ >= 1)
    if explicit_shapes or ctx.branch(ctx.fresh_bool('shape_given')):
        shape = shape2(ctx, 'shape')
    else:
        shape = None
    if explicit_shapes or ctx.branch(ctx.fresh_bool('prop_shape_given')):
        prop_shape = shape2(ctx, 'prop_shape')
    else:
        prop_shape = None
    mask = None
    if with_mask:
        sh = shape if shape is not None else wshape
        mask = array(ctx, 'mask', (S.mul(sh[0], os_), S.mul(sh[1], os_)), 'float')
    return {'wavefront': w, 'pixelscale': du, 'shape': shape, 'prop_shape': prop_shape,
            'oversample': os_, 'mask': mask}


def _prop_posts(c):
    @c.post('metadata')
    def _(ctx, env0, env, out):
        w0, res = env0['wavefront'], out.value
        du, os_ = env0['pixelscale'], env0['oversample']
        sh = env0['shape'] if env0['shape'] is not None else w0.attrs['shape']
        ps = res.attrs['_pixelscale']
        f = [S.z(S.eq(res.attrs['_wavelength'], w0.attrs['_wavelength'])),
             S.z(S.eq(res.attrs['focal_length'], w0.attrs['focal_length'])),
             S.z(S.eq(ps.at((0,)), S.truediv(du[0], os_))), S.z(S.eq(ps.at((1,)), S.truediv(du[1], os_)))]
        rs = elems(ctx, res.attrs['shape'])
        f += [S.z(S.eq(rs[0], S.mul(sh[0], os_))), S.z(S.eq(rs[1], S.mul(sh[1], os_)))]
        want = {'pupil': 'image', 'image': 'pupil'}[key(ctx, w0.attrs['_ptype'])]
        f.append(z3.BoolVal(key(ctx, res.attrs['_ptype']) == want))
        return z3.And(*f)

    @c.post('fraunhofer_field_on_the_evaluated_window')
    def _(ctx, env0, env, out):
        w0, res = env0['wavefront'], out.value
        du, os_ = env0['pixelscale'], env0['oversample']
        dx = elems(ctx, w0.attrs['_pixelscale'])
        z, wl = w0.attrs['focal_length'], w0.attrs['_wavelength']
        # the statement's alpha, per axis
        alpha = (S.truediv(S.mul(dx[0], du[0]), S.mul(S.mul(wl, z), os_)),
                 S.truediv(S.mul(dx[1], du[1]), S.mul(S.mul(wl, z), os_)))
        sh = env0['shape'] if env0['shape'] is not None else w0.attrs['shape']
        ps = env0['prop_shape'] if env0['prop_shape'] is not None else sh
        R, C = S.mul(sh[0], os_), S.mul(sh[1], os_)
        out_extent = X.array_extent_model(ctx, {'shape': (R, C), 'shift': (0, 0), 'parent_shape': None})
        if env0['mask'] is not None:
            box = U.boundary_call_model(ctx, {'x': env['mask'], 'threshold': 0})
            # the mask's bounding box in plane coordinates (array index r carries coordinate r - floor(R/2))
            out_extent = (S.sub(box[0], S.floordiv(R, 2)), S.sub(box[1], S.floordiv(R, 2)),
                          S.sub(box[2], S.floordiv(C, 2)), S.sub(box[3], S.floordiv(C, 2)))
        got_fields = res.attrs['data'].items
        k = 0
        for fld in w0.attrs['data'].items:
            s = shift_terms(ctx, fld, z, wl, du, os_) or (0, 0)
            fix = (S.fix_(s[0]), S.fix_(s[1]))
            prop_extent = X.array_extent_model(ctx, {'shape': (S.mul(ps[0], os_), S.mul(ps[1], os_)), 'shift': fix,
                                                      'parent_shape': None})
            win = X.intersection_extent_model(ctx, {'a': out_extent, 'b': prop_extent})
            nonempty = S.and_(S.le(win[0], win[1]), S.le(win[2], win[3]))
            if ctx.branch(nonempty):
                if k >= len(got_fields):
                    ctx.oblige('propagate.propagate_dft::window_field_present', False)
                    return None
                g = got_fields[k]
                k += 1
                ext = g.attrs['extent']
                ctx.oblige('propagate.propagate_dft::window_is_out_extent_cap_prop_extent',
                           z3.And(*[S.z(S.eq(a, b)) for a, b in zip(ext, win)]))
                ctx.oblige('propagate.propagate_dft::field_extent_invariant', F.wf_extent(ctx, g))
                hw = (S.add(S.sub(win[1], win[0]), 1), S.add(S.sub(win[3], win[2]), 1))
                want = fraunhofer_expected(ctx, fld, alpha, hw, F.off(g), s)
                oblige_equal(ctx, 'propagate.propagate_dft::sample_values', g.attrs['data'], want)
        ctx.oblige('propagate.propagate_dft::nothing_outside_the_windows', len(got_fields) == k,
                   info={'fields': len(got_fields), 'windows': k})
        return None


c = contract('lentil.propagate.propagate_dft', level='I')
c.params = lambda ctx: _prop_params(ctx, 1, None)
c.raises['TypeError'] = lambda ctx, env: z3.BoolVal(False)
_prop_posts(c)

c = contract('lentil.propagate.propagate_dft#mask', level='I')
c.qualname = 'lentil.propagate.propagate_dft'
c.tag = 'mask'
c.params = lambda ctx: _prop_params(ctx, 1, True)
c.ctx_flags = {'bbox_quantified': False}
c.raises['IndexError'] = lambda ctx, env: z3.Not(z3.Bool('mask_has_support'))
_prop_posts(c)

c = contract('lentil.propagate.propagate_dft#2', level='I')
c.qualname = 'lentil.propagate.propagate_dft'
c.tag = 'two fields'
c.params = lambda ctx: _prop_params(ctx, 2, None, explicit_shapes=True)
_prop_posts(c)


# ---------------------------------------------------------------------------------------
# FFT propagation (C09)

c = contract('lentil.propagate._fft_shape', level='I')


def _fftshape_params(ctx):
    dx = Arr.from_list([ctx.fresh_real('dx_r'), ctx.fresh_real('dx_c')])
    du = Arr.from_list([ctx.fresh_real('du_r'), ctx.fresh_real('du_c')])
    zz, wl, os_ = ctx.fresh_real('z'), ctx.fresh_real('wavelength'), ctx.fresh_int('oversample')
    for v in (dx.at((0,)), dx.at((1,)), du.at((0,)), du.at((1,)), zz, wl):
        ctx.assume(v > 0)
    ctx.assume(os_ >= 1)
    return {'dx': dx, 'du': du, 'z': zz, 'wavelength': wl, 'oversample': os_}


def fft_shape_model(ctx, env):
    """N_k = round(lambda z os / (dx_k du_k)) (round half to even) and the reported wavelength
    lambda' = min_k N_k dx_k du_k / (os z)."""
    dx, du = elems(ctx, env['dx']), elems(ctx, env['du'])
    z, wl, os_ = env['z'], env['wavelength'], env['oversample']
    N = [S.round_(S.truediv(S.mul(S.mul(wl, z), os_), S.mul(dx[k], du[k]))) for k in range(2)]
    lam = [S.truediv(S.mul(S.mul(S.truediv(N[k], os_), dx[k]), du[k]), z) for k in range(2)]
    return (Arr.from_list(N), S.min_(lam[0], lam[1]))


c.params = _fftshape_params
c.model = fft_shape_model


def _anisotropic(ctx, env0):
    dx, du = elems(ctx, env0['dx']), elems(ctx, env0['du'])
    return S.z(S.ne(S.mul(dx[0], du[0]), S.mul(dx[1], du[1])))


c.witnesses['anisotropic-sampling-product'] = _anisotropic


@c.post('alpha_at_reported_wavelength_is_one_over_N')
def _(ctx, env0, env, out):
    # DFT propagation "evaluated at the wavelength it reports": alpha_k(lambda') = 1/N_k on both axes
    N, lam = out.value
    dx, du = elems(ctx, env0['dx']), elems(ctx, env0['du'])
    z, os_ = env0['z'], env0['oversample']
    f = []
    for k in range(2):
        alpha = S.truediv(S.mul(dx[k], du[k]), S.mul(S.mul(lam, z), os_))
        f.append(z3.Implies(S.z(S.ge(N.at((k,)), 1)), S.z(S.eq(S.mul(alpha, N.at((k,))), 1))))
    return z3.And(*f)


# ---- _fft2 is kept abstract (its equality with the centred unitary DFT is a bounded stand-in); what is
# proved is *what it is applied to* ----

def fft2_call_model(ctx, env):
    x = A.as_array(ctx, env['x'])
    # numpy.fft raises ValueError('Invalid number of FFT data points (0)') on an empty axis
    if ctx.branch(z3.Or(S.z(S.eq(x.shape[0], 0)), S.z(S.eq(x.shape[1], 0)))):
        raise Raised('ValueError', 'Invalid number of FFT data points (0) specified.')
    ctx.__dict__.setdefault('ghost_fft2_inputs', []).append(x.snapshot())
    ctx.assumptions.add('abstract:lentil.propagate._fft2 (centred unitary FFT; bounded stand-in C09)')
    return A.fresh_array(ctx, 'fft2_out', x.shape, 'complex')


c = contract('lentil.propagate._fft2', level='I')
c.call_model = fft2_call_model


def _has_tilt_model(ctx, env):
    r = False
    for f in env['wavefront'].attrs['data'].items:
        r = S.or_(r, len(f.attrs['tilt'].items) > 0)
    return r


def _pfft_params(with_scratch):
    def params(ctx):
        nf = ctx.fresh_int('nfields')
        n = 1 if ctx.branch(nf == 1) else 2
        fields = []
        for k in range(n):
            tilts = [W.mk_tilt(ctx, 'f%d.t0' % k)] if ctx.branch(ctx.fresh_bool('f%d.has_tilt' % k)) else []
            fields.append(F.mk_field(ctx, 'f%d' % k, 'array', tilt=PyList(tilts)))
            h, w_ = fields[-1].attrs['data'].shape
            ctx.assume(z3.Not(z3.And(h == 1, w_ == 1)))
        wshape = shape2(ctx, 'w.shape')
        w = W.mk_wavefront(ctx, fields, ptype='pupil', shape=wshape)
        # class invariant of Wavefront (established by Plane.multiply and the propagators): every field
        # lies inside the centred array of Wavefront.shape
        for f in fields:
            e = f.attrs['extent']
            ctx.assume(z3.And(S.z(e[0]) >= -(wshape[0] / 2), S.z(e[1]) <= wshape[0] - 1 - wshape[0] / 2,
                              S.z(e[2]) >= -(wshape[1] / 2), S.z(e[3]) <= wshape[1] - 1 - wshape[1] / 2))
        du = (ctx.fresh_real('du_r'), ctx.fresh_real('du_c'))
        ctx.assume(z3.And(du[0] > 0, du[1] > 0))
        os_ = ctx.fresh_int('oversample')
        ctx.assume(os_ >= 1)
        shape = shape2(ctx, 'shape') if ctx.branch(ctx.fresh_bool('shape_given')) else None
        scratch = None
        if with_scratch:
            scratch = array(ctx, 'scratch', shape2(ctx, 'scratch'), 'complex')
        return {'wavefront': w, 'pixelscale': du, 'shape': shape, 'oversample': os_, 'scratch': scratch}
    return params


def _pfft_contract(tag, with_scratch):
    c = contract('lentil.propagate.propagate_fft#%s' % tag, level='I')
    c.qualname = 'lentil.propagate.propagate_fft'
    c.tag = tag
    c.params = _pfft_params(with_scratch)
    c.modifies = {'scratch'}

    def grid(ctx, env):
        w = env['wavefront']
        return fft_shape_model(ctx, {'dx': w.attrs['_pixelscale'], 'du': env['pixelscale'], 'z': w.attrs['focal_length'],
                                     'wavelength': w.attrs['_wavelength'], 'oversample': env['oversample']})
    c.raises['NotImplementedError'] = lambda ctx, env: S.z(_has_tilt_model(ctx, env))

    def too_large(ctx, env):
        if env['shape'] is None:
            return z3.BoolVal(False)
        N, _ = grid(ctx, env)
        os_ = env['oversample']
        return z3.And(z3.Not(S.z(_has_tilt_model(ctx, env))),
                      z3.Or(S.z(S.gt(env['shape'][0], S.truediv(N.at((0,)), os_))),
                            S.z(S.gt(env['shape'][1], S.truediv(N.at((1,)), os_)))))

    def scratch_small(ctx, env):
        if env['scratch'] is None:
            return z3.BoolVal(False)
        N, _ = grid(ctx, env)
        sh = env['scratch'].shape
        return z3.And(z3.Not(S.z(_has_tilt_model(ctx, env))), z3.Not(too_large(ctx, env)),
                      z3.Or(S.z(S.lt(sh[0], N.at((0,)))), S.z(S.lt(sh[1], N.at((1,))))))

    def grid_empty(ctx, env):
        # numpy.fft refuses an empty axis; reached only when the two earlier checks passed
        N, _ = grid(ctx, env)
        return z3.And(z3.Not(S.z(_has_tilt_model(ctx, env))),
                      z3.Or(S.z(S.eq(N.at((0,)), 0)), S.z(S.eq(N.at((1,)), 0))))
    c.raises['ValueError'] = lambda ctx, env: z3.Or(too_large(ctx, env), scratch_small(ctx, env), grid_empty(ctx, env))

    @c.post('transform_of_the_padded_total_field')
    def _(ctx, env0, env, out):
        w0, res = env0['wavefront'], out.value
        N, lam = grid(ctx, env0)
        N0, N1 = N.at((0,)), N.at((1,))
        os_ = env0['oversample']
        # the clauses over the ghost record of what was handed to _fft2 exist only in the symbolic run;
        # a native replay sees the returned Wavefront alone and checks the remaining clauses
        if not getattr(ctx, 'replaying', False):
            ins = ctx.__dict__.get('ghost_fft2_inputs', [])
            ctx.oblige('propagate.propagate_fft::fft2_called_once[%s]' % tag, len(ins) == 1, 'structure')
            if len(ins) != 1:
                return None
            x = ins[0]
            r, cc = ints(ctx, 'r', 'c')
            want = F.total(ctx, w0.attrs['data'].items, r - S.z(N0) / 2, cc - S.z(N1) / 2)
            inr = z3.And(r >= 0, r < S.z(N0), cc >= 0, cc < S.z(N1))
            ctx.oblige('propagate.propagate_fft::grid_shape[%s]' % tag,
                       z3.And(S.z(S.eq(x.shape[0], N0)), S.z(S.eq(x.shape[1], N1))))
            # the array handed to the FFT is the total field with its origin sample at index floor(N/2),
            # zero elsewhere - whatever the scratch buffer held before
            ctx.oblige('propagate.propagate_fft::fft_input_is_padded_total_field[%s]' % tag,
                       z3.Implies(inr, F.cx_eq(x.at((r, cc)), want)))
        g = res.attrs['data'].items
        ctx.oblige('propagate.propagate_fft::one_output_field[%s]' % tag, len(g) == 1)
        ps = res.attrs['_pixelscale']
        du = env0['pixelscale']
        sh = env0['shape']
        rs = elems(ctx, res.attrs['shape'])
        want_shape = (S.mul(sh[0], os_), S.mul(sh[1], os_)) if sh is not None else (N0, N1)
        meta = [S.z(S.eq(res.attrs['_wavelength'], lam)), S.z(S.eq(res.attrs['focal_length'], w0.attrs['focal_length'])),
                S.z(S.eq(ps.at((0,)), S.truediv(du[0], os_))), S.z(S.eq(ps.at((1,)), S.truediv(du[1], os_))),
                S.z(S.eq(rs[0], want_shape[0])), S.z(S.eq(rs[1], want_shape[1])),
                z3.BoolVal(key(ctx, res.attrs['_ptype']) == 'image')]
        ctx.oblige('propagate.propagate_fft::metadata[%s]' % tag, z3.And(*meta))
        if len(g) == 1:
            o = F.off(g[0])
            ctx.oblige('propagate.propagate_fft::output_field_centred[%s]' % tag,
                       z3.And(S.z(S.eq(o[0], 0)), S.z(S.eq(o[1], 0)), F.wf_extent(ctx, g[0])))
        return None
    return c


_pfft_contract('no-scratch', False)
_pfft_contract('scratch', True)


# ---------------------------------------------------------------------------------------
# scratch_shape: the advertised buffer shape is the FFT grid of the LONGEST wavelength, and that grid is at
# least as large as the grid of every shorter wavelength (C09: "a buffer of exactly the advertised scratch
# shape is sufficient")

def _scratch_contract(tag, nwave):
    c = contract('lentil.propagate.scratch_shape#%s' % tag, level='P')
    c.qualname = 'lentil.propagate.scratch_shape'
    c.tag = tag

    def params(ctx):
        if tag.startswith('scalar'):
            dx, du = ctx.fresh_real('dx'), ctx.fresh_real('du')
            ctx.assume(z3.And(dx > 0, du > 0))
        else:
            dx = (ctx.fresh_real('dx_r'), ctx.fresh_real('dx_c'))
            du = (ctx.fresh_real('du_r'), ctx.fresh_real('du_c'))
            ctx.assume(z3.And(dx[0] > 0, dx[1] > 0, du[0] > 0, du[1] > 0))
        zz = ctx.fresh_real('z')
        os_ = ctx.fresh_int('oversample')
        ctx.assume(z3.And(zz > 0, os_ >= 1))
        if nwave == 0:
            wl = ctx.fresh_real('wavelength')
            ctx.assume(wl > 0)
        else:
            ws = [ctx.fresh_real('wavelength%d' % k) for k in range(nwave)]
            ctx.assume(z3.And(*[w > 0 for w in ws]))
            wl = PyList(ws)
        return {'dx': dx, 'du': du, 'z': zz, 'wavelength': wl, 'oversample': os_}
    c.params = params
    c.modifies = set()

    @c.post('grid_of_the_longest_wavelength')
    def _(ctx, env0, env, out):
        dx, du = env0['dx'], env0['du']
        dx = dx if isinstance(dx, tuple) else (dx, dx)
        du = du if isinstance(du, tuple) else (du, du)
        ws = env0['wavelength'].items if isinstance(env0['wavelength'], PyList) else [env0['wavelength']]
        res = elems(ctx, out.value)
        ctx.oblige('propagate.scratch_shape::is_a_2_tuple[%s]' % tag, isinstance(out.value, tuple) and len(res) == 2)
        if len(res) != 2:
            return None
        for k in range(2):
            grids = [S.round_(S.truediv(S.mul(S.mul(w, env0['z']), env0['oversample']), S.mul(dx[k], du[k]))) for w in ws]
            # equals the grid of some listed wavelength and is at least the grid of every listed wavelength
            ctx.oblige('propagate.scratch_shape::covers_every_wavelength[%s][axis %d]' % (tag, k),
                       z3.And(z3.Or(*[S.z(S.eq(res[k], g)) for g in grids]), *[S.z(S.ge(res[k], g)) for g in grids]))
        return None
    return c


SCRATCH = []
for _tag, _n in (('scalar-one-wavelength', 0), ('scalar-three-wavelengths', 3), ('per-axis-two-wavelengths', 2)):
    _scratch_contract(_tag, _n)
    SCRATCH.append('lentil.propagate.scratch_shape#' + _tag)


def grid_monotone_in_wavelength(ctx):
    """round(a * l1) <= round(a * l2) for 0 < l1 <= l2 and a > 0: the grid of the longest wavelength of a band
    is large enough for every wavelength inside the band (also those not listed)."""
    a, l1, l2 = ctx.fresh_real('a'), ctx.fresh_real('l1'), ctx.fresh_real('l2')
    ctx.assume(z3.And(a > 0, l1 > 0, l1 <= l2))
    ctx.oblige('C09::fft_grid.monotone_in_wavelength', S.le(S.round_(S.mul(a, l1)), S.round_(S.mul(a, l2))))


C09_LEMMAS = [('C09::fft_grid_monotone', grid_monotone_in_wavelength)]
