"""Contracts for lentil/fourier.py (property C01; used by C02, C05)."""
import z3

from lvc import sym as S
from lvc import arrops as A
from lvc import nplib as L
from lvc.spec import contract, ints, shape2, array, elems
from lvc.values import Arr, PyList
from lvc.interp import Raised


def kernel(ctx, alpha, a, b):
    """e(alpha, a, b) = exp(-2 pi i alpha a b)"""
    theta = S.mul(S.mul(S.mul(S.mul(S.frac(-2.0), L.PI), alpha), a), b)
    return S.Cx(L.cos_scalar(ctx, theta), L.sin_scalar(ctx, theta))


def pair(ctx, v):
    """np.broadcast_to(v, (2,)) as two scalars."""
    if S.is_scalar(v):
        return v, v
    xs = elems(ctx, v)
    if len(xs) == 1:
        return xs[0], xs[0]
    return xs[0], xs[1]


def dft2_spec_array(ctx, f, alpha, shape, shift, offset, unitary):
    """F[u, v] = kappa * sum_y ( sum_x e(a_r, x - m//2 + o_r, u - M//2 - s_r) f[x, y] ) * e(a_c, y - n//2 + o_c, v - N//2 - s_c)
    which is the defining double sum of the property statement by finite-sum distributivity (lemma L1);
    kappa = sqrt(|a_r a_c|) exactly when `unitary`."""
    ar, ac = pair(ctx, alpha)
    m, n = f.shape
    M, N = pair(ctx, shape) if shape is not None else (m, n)
    sr, sc = pair(ctx, shift)
    orow, ocol = pair(ctx, offset)
    fs = f.snapshot()
    kappa = L.sqrt_scalar(ctx, S.abs_(S.mul(ar, ac))) if unitary else 1

    def elem(idx):
        u, v = idx

        def outer(y):
            inner = S.sigma(0, m, lambda x: S.mul(
                kernel(ctx, ar, S.add(S.sub(x, S.floordiv(m, 2)), orow), S.sub(S.sub(u, S.floordiv(M, 2)), sr)),
                S.cx(fs.at((x, y)))))
            return S.mul(inner, kernel(ctx, ac, S.add(S.sub(y, S.floordiv(n, 2)), ocol), S.sub(S.sub(v, S.floordiv(N, 2)), sc)))
        return S.mul(S.sigma(0, n, outer), kappa)
    return Arr.from_fn((M, N), 'complex', elem)


def dft2_model(ctx, env):
    f = A.as_array(ctx, env['f'])
    if f.ndim != 2:
        raise Raised('ValueError', 'f must be 2-D')
    out = env.get('out')
    if out is not None and out.dtype != 'complex':
        raise Raised('TypeError', 'cannot cast complex output')
    res = dft2_spec_array(ctx, f, env['alpha'], env.get('shape'), env.get('shift', (0, 0)),
                          env.get('offset', (0, 0)), env.get('unitary', True))
    if out is not None:
        for x, y in zip(out.shape, res.shape):
            if not A.same_dim(ctx, x, y):
                ctx.require('out shape', S.eq(x, y), exc='ValueError')
        A.setitem(ctx, out, Ellipsis, res)
        return out
    return res


c = contract('lentil.fourier.dft2', level='I')


def _dft2_params(ctx):
    m, n = shape2(ctx, 'f')
    f = array(ctx, 'f', (m, n), 'complex')
    ar, ac = ctx.fresh_real('alpha_r'), ctx.fresh_real('alpha_c')
    if ctx.branch(ctx.fresh_bool('shape_given')):
        M, N = shape2(ctx, 'F')
        shape = (M, N)
    else:
        M, N = m, n
        shape = None
    shift = (ctx.fresh_real('shift_r'), ctx.fresh_real('shift_c'))
    offset = tuple(ints(ctx, 'off_r', 'off_c'))
    unitary = ctx.branch(ctx.fresh_bool('unitary'))
    out = None
    if ctx.branch(ctx.fresh_bool('out_given')):
        cplx = ctx.branch(ctx.fresh_bool('out_is_complex'))
        out = array(ctx, 'out', (M, N), 'complex' if cplx else 'float')
    return {'f': f, 'alpha': (ar, ac), 'shape': shape, 'shift': shift, 'offset': offset,
            'unitary': unitary, 'out': out}


c.params = _dft2_params
c.model = dft2_model
c.modifies = {'out'}


@c.post('out_is_returned')
def _(ctx, env0, env, out):
    if env['out'] is not None:
        return out.value is env['out']
    return True


# ---------------------------------------------------------------------------------------
c = contract('lentil.fourier._dft2_coords')


def _coords_params(ctx):
    m, n, M, N = ints(ctx, 'm', 'n', 'M', 'N')
    ctx.assume(z3.And(m >= 1, n >= 1, M >= 1, N >= 1))
    return {'m': m, 'n': n, 'M': M, 'N': N}


def coords_model(ctx, env):
    def ax(k):
        # the returned arrays live in the lru_cache shared by every later call with the same shapes:
        # any store into them is a frame violation (origin tag 'global:')
        return Arr.from_fn((k,), 'float', lambda idx: S.to_real(S.sub(idx[0], S.floordiv(k, 2))),
                           origin='global:lentil.fourier._dft2_coords(lru_cache)')
    return (ax(env['m']), ax(env['n']), ax(env['M']), ax(env['N']))


c.params = _coords_params
c.model = coords_model


# ---------------------------------------------------------------------------------------
c = contract('lentil.fourier.idft2', level='I')


def idft2_model(ctx, env):
    """conj(dft2(conj F)) divided by F.size unless `unitary` (then the forward kappa is the whole factor)."""
    F = A.as_array(ctx, env['F'])
    Fc = A.elementwise(ctx, S.conj, [F], dtype='complex')
    unitary = env.get('unitary', True)
    res = dft2_model(ctx, {'f': Fc, 'alpha': env['alpha'], 'shape': env.get('shape'), 'shift': env.get('shift', (0, 0)),
                           'offset': (0, 0), 'unitary': unitary, 'out': env.get('out')})
    snap = res.snapshot()
    size = F.size()
    final = Arr.from_fn(res.shape, 'complex', lambda idx: (
        S.conj(snap.at(idx)) if unitary else S.truediv(S.conj(snap.at(idx)), size)))
    if env.get('out') is not None:
        A.setitem(ctx, env['out'], Ellipsis, final)
        return env['out']
    return final


def _idft2_params(ctx):
    m, n = shape2(ctx, 'F')
    F = array(ctx, 'F', (m, n), 'complex')
    ar, ac = ctx.fresh_real('alpha_r'), ctx.fresh_real('alpha_c')
    if ctx.branch(ctx.fresh_bool('shape_given')):
        shape = shape2(ctx, 'f')
        M, N = shape
    else:
        shape = None
        M, N = m, n
    unitary = ctx.branch(ctx.fresh_bool('unitary'))
    out = None
    if ctx.branch(ctx.fresh_bool('out_given')):
        # the caller's buffer must end up holding the returned (normalised) values, whatever it held before
        out = array(ctx, 'out', (M, N), 'complex')
    return {'F': F, 'alpha': (ar, ac), 'shape': shape,
            'shift': (ctx.fresh_real('shift_r'), ctx.fresh_real('shift_c')),
            'unitary': unitary, 'out': out}


c.params = _idft2_params
c.model = idft2_model
c.modifies = {'out'}


# ---------------------------------------------------------------------------------------
# client lemmas

def _coef_of(v):
    """Overall scalar factor in front of the (single) outer sum of a transform element."""
    assert isinstance(v, S.SumT) and len(v.terms) == 1 and S.is_concrete(v.rest) and S.is_zero(v.rest), v
    return v.terms[0][0]


def roundtrip_coefficient(unitary):
    def lemma(ctx):
        """alpha = 1/n on each axis, equal shapes, no shift/offset.  With the orthogonality of the
        centred DFT kernel over one full period (math lemma L2, assumed):
              sum_u conj(e(1/m, x', u)) e(1/m, x, u) = m [x == x']
        idft2(dft2(f)) = c_f c_i m n f, where c_f, c_i are the scalar factors the *code* puts in front
        of the forward and inverse sums.  Obligation: c_f c_i m n == 1."""
        m, n = shape2(ctx, 'f')
        world = ctx.world
        f = array(ctx, 'f', (m, n), 'complex')
        alpha = (S.truediv(1, m), S.truediv(1, n))
        fwd = world.interp.call_function(ctx, world.repo.function('lentil.fourier.dft2'), [f, alpha], {'unitary': unitary})
        u, v = ints(ctx, 'u', 'v')
        cf = _coef_of(fwd.at((u, v)))
        F = array(ctx, 'F', (m, n), 'complex')
        ctx.no_model = {'lentil.fourier.idft2'}
        inv = world.interp.call_function(ctx, world.repo.function('lentil.fourier.idft2'), [F, alpha], {'unitary': unitary})
        ci = _coef_of(inv.at((u, v)))
        ctx.assumptions.add('math lemma L2: orthogonality of the centred DFT kernel over one full period')
        ctx.oblige('C01::roundtrip_coefficient[unitary=%s]' % unitary,
                   S.eq(S.mul(S.mul(S.mul(cf, ci), m), n), 1))
        if unitary:
            ctx.assumptions.add('math lemma L3: Parseval for the centred DFT over one full period')
            # energy: sum |idft2 F|^2 = |c_i|^2 m n sum |F|^2
            ctx.oblige('C01::inverse_unitary_energy', S.eq(S.mul(S.mul(S.mul(ci, ci), m), n), 1))
            ctx.oblige('C01::forward_unitary_energy', S.eq(S.mul(S.mul(S.mul(cf, cf), m), n), 1))
    return lemma


def inverse_kernel_is_conjugate(ctx):
    """The inverse transform's kernel is the complex conjugate of the forward kernel (same alpha,
    same origins): element of idft2(F) == c * sum_y (sum_x conj(e_r) F) conj(e_c)."""
    m, n = shape2(ctx, 'F')
    F = array(ctx, 'F', (m, n), 'complex')
    ar, ac = ctx.fresh_real('alpha_r'), ctx.fresh_real('alpha_c')
    world = ctx.world
    unitary = ctx.branch(ctx.fresh_bool('unitary'))
    ctx.no_model = {'lentil.fourier.idft2'}
    inv = world.interp.call_function(ctx, world.repo.function('lentil.fourier.idft2'), [F, (ar, ac)], {'unitary': unitary})
    u, v = ints(ctx, 'u', 'v')
    ctx.assume(z3.And(u >= 0, u < m, v >= 0, v < n))
    fs = F.snapshot()
    kappa = L.sqrt_scalar(ctx, S.abs_(S.mul(ar, ac))) if unitary else S.truediv(1, S.mul(m, n))

    def outer(y):
        inner = S.sigma(0, m, lambda x: S.mul(S.conj(kernel(ctx, ar, S.sub(x, S.floordiv(m, 2)), S.sub(u, S.floordiv(m, 2)))),
                                              S.cx(fs.at((x, y)))))
        return S.mul(inner, S.conj(kernel(ctx, ac, S.sub(y, S.floordiv(n, 2)), S.sub(v, S.floordiv(n, 2)))))
    want = S.mul(S.sigma(0, n, outer), kappa)
    from lvc.prove import oblige_equal
    oblige_equal(ctx, 'C01::inverse_kernel_is_conjugate', inv.at((u, v)), want)


LEMMAS = [('C01::roundtrip_coefficient[unitary]', roundtrip_coefficient(True)),
          ('C01::roundtrip_coefficient[plain]', roundtrip_coefficient(False)),
          ('C01::inverse_kernel_is_conjugate', inverse_kernel_is_conjugate)]
