"""C08: the plane-type state machine against the documented table.

The oracle is the documentation: the grid table "Multiplication rules" in
docs/user/fundamentals/wavefront.rst and the ptype/class table in planes.rst are parsed on every run.
Each cell becomes a client lemma that *executes the real constructors and multiply methods* through
the interpreter on a wavefront of that type (finite and exhaustive, hence complete for single steps;
the Wavefront.ptype invariant extends it to sequences of any length)."""
import os
import re

import z3

from lvc import sym as S
from lvc.repo import REPO
from lvc.values import Obj, PyList, Arr
from lvc.interp import Raised

WTYPES = ('none', 'pupil', 'image')
PTYPES = ('none', 'pupil', 'image', 'tilt', 'transform')


def parse_doc_table():
    """-> {(plane ptype, wavefront ptype): result ptype or None (not allowed)}"""
    txt = open(os.path.join(REPO, 'docs/user/fundamentals/wavefront.rst')).read()
    i = txt.index('Multiplication rules')
    rows = {}
    header = None
    for line in txt[i:].splitlines():
        if line.startswith('|'):
            cells = [c.strip() for c in line.strip().strip('|').split('|')]
            names = [re.sub(r'[`\s]', '', c) for c in cells]
            if header is None and 'none' in names and 'pupil' in names and 'image' in names and len(names) == 4 and names[0] == '':
                header = names[1:]
                continue
            if header is not None and names[0] in PTYPES and len(names) == 4:
                for w, v in zip(header, cells[1:]):
                    v = re.sub(r'[`\s]', '', v)
                    rows[(names[0], w)] = None if v.lower().startswith('notallowed') else v
        elif header is not None and rows and not line.strip().startswith('+') and line.strip() and len(rows) >= 15:
            break
    if len(rows) != 15:
        raise RuntimeError('could not parse the multiplication table (%d cells)' % len(rows))
    return rows


def parse_class_table():
    """-> {ptype: [class names]} from planes.rst"""
    txt = open(os.path.join(REPO, 'docs/user/fundamentals/planes.rst')).read()
    out = {}
    for m in re.finditer(r'^:class:`(\w+)`\s+(.*)$', txt, re.M):
        out[m.group(1)] = re.findall(r'~lentil\.(\w+)', m.group(2))
    return out


def new(ctx, qualname, *args, **kwargs):
    cls = ctx.world.repo.klass(qualname)
    return ctx.world.interp.instantiate(ctx, cls, list(args), kwargs)


def gptype(ctx, name):
    """The module-level singleton lentil.<name>."""
    from lvc.interp import ModuleRef
    return ctx.world.interp.module_attr(ctx, ctx.world.interp.module_ref('lentil'), name)


def key(ctx, p):
    return p.attrs['_key']


def snapshot_state(obj):
    """Shallow description of an object's attribute values for the 'unchanged on refusal' clause."""
    out = {}
    for k, v in obj.attrs.items():
        if isinstance(v, PyList):
            out[k] = ('list', id(v), tuple(id(x) for x in v.items))
        elif isinstance(v, Obj):
            out[k] = ('obj', id(v), v.attrs.get('_key'))
        elif isinstance(v, Arr):
            out[k] = ('arr', id(v), len(v.cell.writes))
        else:
            out[k] = ('val', repr(v))
    return out


def make_wavefront(ctx, wtype, empty, fresh_ptype):
    wl = ctx.fresh_real('wavelength')
    ctx.assume(wl > 0)
    if empty:
        cls = ctx.world.repo.klass('lentil.wavefront.Wavefront')
        w = ctx.world.interp.call_function(ctx, cls.methods['empty'], [cls], {'wavelength': wl, 'ptype': wtype})
    else:
        w = new(ctx, 'lentil.wavefront.Wavefront', wl, ptype=wtype)
    if fresh_ptype:
        # an equal-but-not-identical ptype object (as after copy.deepcopy of a wavefront)
        w.attrs['_ptype'] = new(ctx, 'lentil.ptype.PType', wtype)
    return w


PLANE_MAKERS = {
    'Plane': lambda ctx: new(ctx, 'lentil.plane.Plane'),
    'Pupil': lambda ctx: new(ctx, 'lentil.plane.Pupil', focal_length=ctx.fresh_real('f')),
    'Image': lambda ctx: new(ctx, 'lentil.plane.Image'),
    'Tilt': lambda ctx: new(ctx, 'lentil.plane.Tilt', x=ctx.fresh_real('tx'), y=ctx.fresh_real('ty')),
    'DispersiveTilt': lambda ctx: new(ctx, 'lentil.plane.DispersiveTilt',
                                      trace=PyList([ctx.fresh_real('t1'), ctx.fresh_real('t0')]),
                                      dispersion=PyList([ctx.fresh_real('d1'), ctx.fresh_real('d0')])),
    'Grism': lambda ctx: new(ctx, 'lentil.plane.Grism',
                             trace=PyList([ctx.fresh_real('t1'), ctx.fresh_real('t0')]),
                             dispersion=PyList([ctx.fresh_real('d1'), ctx.fresh_real('d0')])),
    'LensletArray': lambda ctx: new(ctx, 'lentil.plane.LensletArray'),
    'Rotate': lambda ctx: new(ctx, 'lentil.plane.Rotate'),
    'Flip': lambda ctx: new(ctx, 'lentil.plane.Flip'),
}
for _p in PTYPES:
    PLANE_MAKERS['Plane(ptype=%s)' % _p] = (lambda p: (lambda ctx: new(ctx, 'lentil.plane.Plane', ptype=p)))(_p)


def cell_lemma(maker_name, wtype, empty, fresh_ptype, table, documented_ptype=None):
    label = '%s x Wavefront(%s%s%s)' % (maker_name, wtype, ',no fields' if empty else '', ',copied ptype' if fresh_ptype else '')

    def lemma(ctx):
        w = make_wavefront(ctx, wtype, empty, fresh_ptype)
        plane = PLANE_MAKERS[maker_name](ctx)
        pk = key(ctx, ctx.world.interp.getattr(ctx, plane, 'ptype'))
        if documented_ptype is not None:
            ctx.oblige('C08::class_has_documented_ptype[%s]' % maker_name, pk == documented_ptype,
                       info={'observed': pk, 'documented': documented_ptype,
                             'witness': {'transform-classes': z3.BoolVal(maker_name in ('Rotate', 'Flip'))}})
        want = table[(documented_ptype or pk, wtype)]
        w_before, p_before = snapshot_state(w), snapshot_state(plane)
        n_events = len(ctx.events)
        wit = {'witness': {'transform-classes': z3.BoolVal(maker_name in ('Rotate', 'Flip'))}}
        try:
            res = ctx.world.interp.call_value(ctx, ctx.world.interp.getattr(ctx, w, '__mul__'), [plane], {})
        except Raised as r:
            if want is None:
                ctx.oblige('C08::refusal_is_TypeError[%s]' % label, r.exc == 'TypeError', info=dict(wit, exc=r.exc))
                same = snapshot_state(w) == w_before and snapshot_state(plane) == p_before
                ctx.oblige('C08::refusal_leaves_operands_unchanged[%s]' % label, same, info=dict(
                    wit, writes=[d for (_, d) in ctx.events[n_events:]][:5]))
            else:
                ctx.oblige('C08::cell[%s]' % label, False, info=dict(wit, expected=want, observed='raises ' + r.exc, msg=str(r.msg)))
            return
        if want is None:
            ctx.oblige('C08::cell[%s]' % label, False, info=dict(wit, expected='TypeError', observed=key(ctx, res.attrs['_ptype'])))
            return
        got = key(ctx, ctx.world.interp.getattr(ctx, res, 'ptype'))
        ctx.oblige('C08::cell[%s]' % label, got == want, info=dict(wit, expected=want, observed=got))
        ctx.oblige('C08::result_type_is_a_wavefront_type[%s]' % label, got in WTYPES)

    def native_replay(obname, model):
        """The same cell on the real classes: prints {"violated": bool, "observed": ...}."""
        ctor = {'Plane': 'lentil.Plane()', 'Pupil': 'lentil.Pupil(focal_length=10.0)', 'Image': 'lentil.Image()',
                'Tilt': 'lentil.Tilt(x=1e-6, y=2e-6)', 'DispersiveTilt': 'lentil.DispersiveTilt(trace=[1.0, 0.0], dispersion=[1.0, 5e-7])',
                'Grism': 'lentil.Grism(trace=[1.0, 0.0], dispersion=[1.0, 5e-7])', 'LensletArray': 'lentil.LensletArray()',
                'Rotate': 'lentil.Rotate()', 'Flip': 'lentil.Flip()'}.get(maker_name)
        if ctor is None:
            ctor = "lentil.Plane(ptype=lentil.ptype('%s'))" % maker_name.split('=')[1].rstrip(')')
        want = table[(documented_ptype or maker_name.split('=')[-1].rstrip(')'), wtype)] if (documented_ptype or '=' in maker_name) else None
        if want is None and not (documented_ptype or '=' in maker_name):
            return None
        mk = "lentil.Wavefront.empty(600e-9, ptype=lentil.ptype('%s'))" % wtype if empty else "lentil.Wavefront(600e-9, ptype=lentil.ptype('%s'))" % wtype
        return '\n'.join([
            'import json, copy, warnings', 'warnings.simplefilter("ignore")', 'import lentil',
            'w = %s' % mk,
            'w._ptype = copy.deepcopy(w._ptype)' if fresh_ptype else 'pass',
            'p = %s' % ctor,
            'fl = w.focal_length',
            'try:',
            '    r = w * p',
            '    obs = str(r.ptype)',
            'except Exception as e:',
            '    obs = "raises " + type(e).__name__',
            'want = %r' % (want if want is not None else 'raises TypeError'),
            'bad = obs != want or (obs.startswith("raises") and w.focal_length != fl)',
            'print(json.dumps({"violated": bool(bad), "observed": obs, "documented": want}))'])
    lemma.native_replay = native_replay
    return ('C08::' + label, lemma)


def propagate_lemma(wtype, fresh_ptype):
    label = 'propagate Wavefront(%s%s)' % (wtype, ',copied ptype' if fresh_ptype else '')

    def lemma(ctx):
        func = ctx.world.repo.function('lentil.propagate._propagate_ptype')
        p = new(ctx, 'lentil.ptype.PType', wtype) if fresh_ptype else gptype(ctx, wtype)
        want = {'pupil': 'image', 'image': 'pupil', 'none': None}[wtype]
        try:
            res = ctx.world.interp.call_function(ctx, func, [p], {})
        except Raised as r:
            ctx.oblige('C08::%s' % label, want is None and r.exc == 'TypeError', info={'observed': 'raises ' + r.exc})
            return
        ctx.oblige('C08::%s' % label, want is not None and key(ctx, res) == want,
                   info={'expected': want, 'observed': key(ctx, res)})

    def native_replay(obname, model):
        want = {'pupil': 'image', 'image': 'pupil', 'none': 'raises TypeError'}[wtype]
        return '\n'.join([
            'import json, copy, warnings', 'warnings.simplefilter("ignore")', 'import lentil, lentil.propagate',
            "p = lentil.ptype('%s')" % wtype,
            'p = copy.deepcopy(p)' if fresh_ptype else 'pass',
            'try:',
            '    obs = str(lentil.propagate._propagate_ptype(p))',
            'except Exception as e:',
            '    obs = "raises " + type(e).__name__',
            'want = %r' % want,
            'print(json.dumps({"violated": obs != want, "observed": obs, "documented": want}))'])
    lemma.native_replay = native_replay
    return ('C08::' + label, lemma)


def ptype_object_lemmas():
    def eq_hash(ctx):
        for a in PTYPES:
            for b in PTYPES:
                x, y = new(ctx, 'lentil.ptype.PType', a), new(ctx, 'lentil.ptype.PType', b)
                e = ctx.world.interp.compare(ctx, 'Eq', x, y)
                ctx.oblige('C08::PType.__eq__[%s,%s]' % (a, b), e == (a == b))
                hx = ctx.world.interp.call_function(ctx, x.cls.methods['__hash__'], [x], {})
                hy = ctx.world.interp.call_function(ctx, y.cls.methods['__hash__'], [y], {})
                if a == b:
                    ctx.oblige('C08::PType.__hash__ consistent[%s]' % a, hx == hy)

    def invalid(ctx):
        try:
            new(ctx, 'lentil.ptype.PType', 'bogus')
            ctx.oblige('C08::PType rejects unknown type', False)
        except Raised as r:
            ctx.oblige('C08::PType rejects unknown type', r.exc == 'TypeError')

    def setter_invariant(ctx):
        # Wavefront.ptype accepts exactly the three wavefront types: the induction that carries the
        # single-step table to sequences of any length
        for t in PTYPES:
            wl = ctx.fresh_real('wavelength')
            w = new(ctx, 'lentil.wavefront.Wavefront', wl)
            try:
                ctx.world.interp.setattr(ctx, w, 'ptype', t)
                ok = t in WTYPES and key(ctx, w.attrs['_ptype']) == t
            except Raised as r:
                ok = t not in WTYPES and r.exc == 'TypeError'
            ctx.oblige('C08::Wavefront.ptype setter invariant[%s]' % t, ok)
    return [('C08::PType eq/hash', eq_hash), ('C08::PType rejects unknown', invalid),
            ('C08::Wavefront.ptype invariant', setter_invariant)]


def ptype_keyword_lemmas():
    """Every plane class that documents a `ptype` keyword honours it: the object reports the requested type (and
    therefore takes the row of the table that belongs to it - the cells themselves are proved per type)."""
    out = []
    ctors = {
        'Plane': lambda ctx, kw: new(ctx, 'lentil.plane.Plane', **kw),
        'Tilt': lambda ctx, kw: new(ctx, 'lentil.plane.Tilt', x=ctx.fresh_real('tx'), y=ctx.fresh_real('ty'), **kw),
        'DispersiveTilt': lambda ctx, kw: new(ctx, 'lentil.plane.DispersiveTilt', trace=PyList([ctx.fresh_real('t1'), ctx.fresh_real('t0')]),
                                              dispersion=PyList([ctx.fresh_real('d1'), ctx.fresh_real('d0')]), **kw),
        'Grism': lambda ctx, kw: new(ctx, 'lentil.plane.Grism', trace=PyList([ctx.fresh_real('t1'), ctx.fresh_real('t0')]),
                                     dispersion=PyList([ctx.fresh_real('d1'), ctx.fresh_real('d0')]), **kw),
    }

    def make(cname):
        def lemma(ctx):
            for p in PTYPES:
                for how in ('name', 'object'):
                    kw = {'ptype': p if how == 'name' else gptype(ctx, p)}
                    try:
                        obj = ctors[cname](ctx, kw)
                    except Raised as r:
                        ctx.oblige('C08::ptype_keyword_honoured[%s(ptype=%s as %s)]' % (cname, p, how), False, info={'raises': r.exc})
                        continue
                    got = key(ctx, ctx.world.interp.getattr(ctx, obj, 'ptype'))
                    ctx.oblige('C08::ptype_keyword_honoured[%s(ptype=%s as %s)]' % (cname, p, how), got == p, info={'observed': got})
        def native_replay(obname, model):
            ctor = {'Plane': 'lentil.Plane(ptype=P)', 'Tilt': 'lentil.Tilt(x=1e-6, y=2e-6, ptype=P)',
                    'DispersiveTilt': 'lentil.DispersiveTilt(trace=[1.0, 0.0], dispersion=[1.0, 5e-7], ptype=P)',
                    'Grism': 'lentil.Grism(trace=[1.0, 0.0], dispersion=[1.0, 5e-7], ptype=P)'}[cname]
            return '\n'.join(['import json, warnings', 'warnings.simplefilter("ignore")', 'import lentil', 'bad = []',
                              'for name in %r:' % (list(PTYPES),),
                              '    for P in (name, lentil.ptype(name)):',
                              '        try:',
                              '            got = str(%s.ptype)' % ctor,
                              '        except Exception as e:',
                              '            got = "raises " + type(e).__name__',
                              '        if got != name: bad.append({"requested": name, "observed": got})',
                              'print(json.dumps({"violated": bool(bad), "failing_cases": bad[:4]}))'])
        lemma.native_replay = native_replay
        return ('C08::ptype keyword of %s' % cname, lemma)
    for cname in ctors:
        out.append(make(cname))
    return out


def propagator_lemmas():
    """propagate_dft and propagate_fft flip the type of the wavefront they are given (pupil -> image, image ->
    pupil) and refuse a wavefront of type none with TypeError - on real Wavefront objects with one field."""
    from contracts import field as F
    from contracts import wavefront as W
    out = []

    def make(fn, wtype):
        def lemma(ctx):
            f = F.mk_field(ctx, 'f0', 'array', tilt=PyList([]))
            h, w_ = f.attrs['data'].shape
            ctx.assume(z3.Not(z3.And(h == 1, w_ == 1)))
            wshape = (ctx.fresh_int('w.h'), ctx.fresh_int('w.w'))
            ctx.assume(z3.And(wshape[0] >= 1, wshape[1] >= 1))
            w = W.mk_wavefront(ctx, [f], ptype=wtype, shape=wshape)
            du = ctx.fresh_real('du')
            ctx.assume(du > 0)
            func = ctx.world.repo.function('lentil.propagate.' + fn)
            want = {'pupil': 'image', 'image': 'pupil', 'none': None}[wtype]
            label = '%s(Wavefront(%s))' % (fn, wtype)
            try:
                res = ctx.world.interp.call_function(ctx, func, [w], {'pixelscale': du, 'shape': (4, 4), 'oversample': 1})
            except Raised as r:
                if r.exc in ('TypeError',):
                    ctx.oblige('C08::%s' % label, want is None, info={'observed': 'raises TypeError'})
                else:
                    from lvc.interp import PathEnd
                    raise PathEnd('refused for another reason (%s): covered by the propagation contracts' % r.exc)
                return
            got = key(ctx, ctx.world.interp.getattr(ctx, res, 'ptype'))
            ctx.oblige('C08::%s' % label, want is not None and got == want, info={'expected': want, 'observed': got})
        def native_replay(obname, model):
            want = {'pupil': 'image', 'image': 'pupil', 'none': 'raises TypeError'}[wtype]
            return '\n'.join(['import json, warnings', 'warnings.simplefilter("ignore")', 'import numpy as np, lentil',
                              'w = lentil.Wavefront(600e-9) * lentil.Pupil(amplitude=lentil.circle((32, 32), 10), focal_length=10.0, pixelscale=1e-3)',
                              "w.ptype = lentil.ptype('%s')" % wtype,
                              'try:',
                              '    obs = str(lentil.%s(w, pixelscale=5e-6, shape=8, oversample=1).ptype)' % fn,
                              'except Exception as e:',
                              '    obs = "raises " + type(e).__name__',
                              'print(json.dumps({"violated": obs != %r, "observed": obs, "expected": %r}))' % (want, want)])
        lemma.native_replay = native_replay
        return ('C08::' + '%s flips %s' % (fn, wtype), lemma)
    for fn in ('propagate_dft', 'propagate_fft'):
        for wtype in WTYPES:
            out.append(make(fn, wtype))
    return out


def all_lemmas():
    table = parse_doc_table()
    classes = parse_class_table()
    out = []
    for p in PTYPES:
        for w in WTYPES:
            for empty in (False, True):
                out.append(cell_lemma('Plane(ptype=%s)' % p, w, empty, False, table))
            out.append(cell_lemma('Plane(ptype=%s)' % p, w, False, True, table))
    for ptype_name, names in sorted(classes.items()):
        for cname in names:
            if cname not in PLANE_MAKERS:
                continue
            for w in WTYPES:
                out.append(cell_lemma(cname, w, False, False, table, documented_ptype=ptype_name))
    for cname in ('Grism', 'LensletArray'):
        for w in WTYPES:
            out.append(cell_lemma(cname, w, False, False, table))
    for w in WTYPES:
        out.append(propagate_lemma(w, False))
        out.append(propagate_lemma(w, True))
    out += ptype_object_lemmas()
    out += ptype_keyword_lemmas()
    out += propagator_lemmas()
    return out
