"""Client lemmas for C03 (segmentation invariance)."""
import z3

from lvc import sym as S
from lvc import nplib as L
from lvc.spec import ints


def partition_algebra(k):
    def lemma(ctx):
        """For segment masks m_1..m_k that partition a global mask G (G = sum m_n pointwise), the sum of the
        per-segment phasors amp * m_n * exp(i phi) is the monolithic phasor amp * G * exp(i phi)."""
        amp, phi = ctx.fresh_real('amp'), ctx.fresh_real('phi')
        ms = [ctx.fresh_real('m%d' % i) for i in range(k)]
        G = ctx.fresh_real('G')
        tot = 0
        for m in ms:
            tot = S.add(tot, m)
        ctx.assume(S.z(S.eq(tot, G)))
        e = S.Cx(L.cos_scalar(ctx, phi), L.sin_scalar(ctx, phi))
        acc = S.Cx(0, 0)
        for m in ms:
            acc = S.add(acc, S.mul(e, S.mul(amp, m)))
        want = S.mul(e, S.mul(amp, G))
        ctx.oblige('C03::partition_algebra[k=%d]' % k, S.and_(S.eq(acc.re, want.re), S.eq(acc.im, want.im)))
    return ('C03::partition_algebra[k=%d]' % k, lemma)


LEMMAS = [partition_algebra(2), partition_algebra(3), partition_algebra(4)]
