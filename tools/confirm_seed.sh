#!/bin/bash
# usage: confirm_seed.sh <dir with patch.diff demo.py meta.json> <seed-id>
# Confirms in a scratch worktree: patch applies, 146 tests pass with it, demo FAILs with it and PASSes without.
src="$1"; id="$2"
wt=/tmp/mut/confirm.$$
git -C /repo worktree add -q --detach $wt HEAD || exit 9
cd $wt
res="{}"
ok=1
git apply "$src/patch.diff" || { echo "$id: patch does not apply"; ok=0; }
if [ $ok = 1 ]; then
  t=$(PYTHONPATH=$wt /venv/bin/python -m pytest -q -p no:cacheprovider 2>&1 | grep -E "passed|failed" | tail -1)
  case "$t" in "146 passed"*) ;; *) t2=$(PYTHONPATH=$wt /venv/bin/python -m pytest -q -p no:cacheprovider 2>&1 | grep -E "passed|failed" | tail -1); t="$t2";; esac
  PYTHONPATH=$wt timeout 300 /venv/bin/python "$src/demo.py" > /tmp/mut/confirm.$$.with 2>&1; rc_with=$?
  git checkout -q -- .
  PYTHONPATH=$wt timeout 300 /venv/bin/python "$src/demo.py" > /tmp/mut/confirm.$$.without 2>&1; rc_without=$?
  echo "$id: tests_with_patch='$t' demo_with=$rc_with demo_without=$rc_without"
  case "$t" in "146 passed"*) ;; *) ok=0;; esac
  [ $rc_with = 1 ] || ok=0
  [ $rc_without = 0 ] || ok=0
fi
cd /; git -C /repo worktree remove --force $wt
if [ $ok = 1 ]; then
  mkdir -p /verif/seeded/$id
  cp "$src/patch.diff" "$src/demo.py" /verif/seeded/$id/
  /usr/bin/python3 - "$src/meta.json" "/verif/seeded/$id/meta.json" "$t" "$rc_with" "$rc_without" <<'PY'
import json,sys
m=json.load(open(sys.argv[1]))
m['confirmed']={'how':'tools/confirm_seed.sh: patch applied to a scratch worktree of /repo HEAD; full suite run with PYTHONPATH at the worktree; demo.py run with and without the patch',
 'tests_with_patch':sys.argv[3],'demo_exit_with_patch':int(sys.argv[4]),'demo_exit_without_patch':int(sys.argv[5])}
json.dump(m,open(sys.argv[2],'w'),indent=1)
PY
  echo "$id: KEPT"
else
  echo "$id: REJECTED"
fi
rm -f /tmp/mut/confirm.$$.with /tmp/mut/confirm.$$.without
