#!/usr/bin/env python3
"""Regenerates /verif/MANIFEST.json from props/*.py (META dicts) and properties.jsonl."""
import ast, json, os, re
V = os.path.dirname(os.path.dirname(os.path.abspath(__file__)))
props = [json.loads(l) for l in open(os.path.join(V, 'properties.jsonl'))]
checks, na = [], []
for p in props:
    pid = p['id']
    f = os.path.join(V, 'props', pid + '.py')
    meta = None
    if os.path.exists(f):
        tree = ast.parse(open(f).read())
        for st in tree.body:
            if isinstance(st, ast.Assign) and st.targets[0].id == 'META':
                meta = ast.literal_eval(st.value)
    if meta is None or meta.get('not_applicable'):
        na.append({'property_id': pid, 'reason': (meta or {}).get('not_applicable') or
                   'check not built yet (framework under construction; see DESIGN.md section 7 for the plan)'})
        continue
    checks.append({
        'property_id': pid,
        'quick_cmd': 'bin/lv check %s --tier quick' % pid,
        'thorough_cmd': 'bin/lv check %s --tier thorough' % pid,
        'evidence_file': 'evidence/%s.json' % pid,
        'replay_cmd_template': 'bin/lv replay {path}',
        'engine': 'lvc',
        'level_claimed': {'category': 'proof', 'text': meta['level_text'], 'design_ref': meta.get('design_ref', 'DESIGN.md section 7, ' + pid)},
        'level_note': meta['level_note'],
        'technique': meta.get('technique', 'contract-based deductive verification: VCs generated from the AST of the real functions (lvc), discharged by z3; counter-models replayed natively'),
    })
m = {
    'version': 1,
    'setup_cmd': 'bin/lv selfcheck',
    'hooks': {'guard': 'LENTIL_VERIF',
              'enable': 'no hooks: contracts are side-car files under /verif/contracts and /repo is parsed, never instrumented (the guard variable is reserved and unused)',
              'baseline_off_cmd': 'cd /repo && /venv/bin/python -m pytest -ra -q -p no:cacheprovider --timeout=900 --continue-on-collection-errors',
              'source_commits': [], 'add_only': True},
    'engines': [{'name': 'lvc', 'path': 'lvc/', 'serves_properties': [c['property_id'] for c in checks],
                 'kind_free_text': 'self-built verification-condition generator for the Python/NumPy subset used by lentil: re-reads /repo/lentil/*.py with ast on every run, path-splitting symbolic execution against side-car contracts (contracts/*.py), obligations discharged by z3 (python3-vt), counter-models replayed on the real code under /venv/bin/python'}],
    'checks': checks,
    'not_applicable': na,
    'notes': 'Exit codes of every check: 0 all obligations discharged (known findings aside), 1 VIOLATION, 2 undecided (no VIOLATION line), 3 checker error. Known findings and fixed defects: known_findings.json. See DESIGN.md.',
}
json.dump(m, open(os.path.join(V, 'MANIFEST.json'), 'w'), indent=1)
print('checks:', [c['property_id'] for c in checks], 'not_applicable:', len(na))
