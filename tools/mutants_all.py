#!/usr/bin/env python3
"""Runs every seeded mutant against the quick check of its property (applies the patch to /repo, runs, reverts)
and writes seeded/RESULTS.json: which obligations / stand-ins reported the violation."""
import json, os, re, subprocess, sys, time
V = os.path.dirname(os.path.dirname(os.path.abspath(__file__)))
out = {}
seeds = sorted(d for d in os.listdir(os.path.join(V, 'seeded')) if re.match(r'C\d\d-\d', d))
only = sys.argv[1:]
for sd in seeds:
    if only and not any(sd.startswith(o) for o in only):
        continue
    prop = sd.split('-')[0]
    patch = os.path.join(V, 'seeded', sd, 'patch.diff')
    assert subprocess.run(['git', '-C', '/repo', 'diff', '--quiet']).returncode == 0, 'repo dirty'
    subprocess.run(['git', '-C', '/repo', 'apply', patch], check=True)
    t0 = time.time()
    try:
        p = subprocess.run(['timeout', '1500', os.path.join(V, 'bin', 'lv'), 'check', prop], cwd=V, capture_output=True, text=True)
        rc, txt = p.returncode, p.stdout
    finally:
        subprocess.run(['git', '-C', '/repo', 'checkout', '--', '.'])
    viol = [re.search(r'replay=\S*/([^/]+)\.json', l).group(1) for l in txt.splitlines() if l.startswith('VIOLATION')]
    out[sd] = {'property': prop, 'exit': rc, 'detected': rc == 1, 'violations': viol[:8], 'wall_s': round(time.time() - t0, 1),
               'confirmed_replay': sum(1 for l in txt.splitlines() if l.startswith('VIOLATION') and 'no-failing-input-found' not in l)}
    print(sd, rc, viol[:2], flush=True)
    json.dump(out, open(os.path.join(V, 'seeded', 'RESULTS.json'), 'w'), indent=1)
