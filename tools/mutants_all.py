#!/usr/bin/env python3
"""Runs every seeded mutant against the quick check of its property and writes seeded/RESULTS.json: which
obligations / stand-ins reported the violation.

Each mutant is applied to a scratch export of /repo's HEAD (never to /repo itself); the check reads it through
LVC_REPO and writes its evidence / replay files to a scratch LVC_OUT, so the committed evidence is not touched.
usage: mutants_all.py [-j N] [seed-prefix ...]"""
import json, os, re, shutil, subprocess, sys, tempfile, time
from concurrent.futures import ThreadPoolExecutor

V = os.path.dirname(os.path.dirname(os.path.abspath(__file__)))
args = sys.argv[1:]
jobs = 2
if args[:1] == ['-j']:
    jobs = int(args[1])
    args = args[2:]
seeds = sorted(d for d in os.listdir(os.path.join(V, 'seeded')) if re.match(r'C\d\d-\d+$', d))
seeds = [s for s in seeds if not args or any(s.startswith(o) for o in args)]
res_path = os.path.join(V, 'seeded', 'RESULTS.json')
out = json.load(open(res_path)) if os.path.exists(res_path) and args else {}


def run(sd):
    prop = sd.split('-')[0]
    patch = os.path.join(V, 'seeded', sd, 'patch.diff')
    scratch = tempfile.mkdtemp(prefix='lvmut.%s.' % sd)
    try:
        tree = os.path.join(scratch, 'tree')
        os.makedirs(tree)
        ar = subprocess.Popen(['git', '-C', '/repo', 'archive', 'HEAD'], stdout=subprocess.PIPE)
        subprocess.run(['tar', '-x', '-C', tree], stdin=ar.stdout, check=True)
        ar.wait()
        subprocess.run(['git', 'apply', patch], cwd=tree, check=True)
        env = dict(os.environ, LVC_REPO=tree, LVC_OUT=os.path.join(scratch, 'out'))
        t0 = time.time()
        p = subprocess.run(['timeout', '2400', os.path.join(V, 'bin', 'lv'), 'check', prop], cwd=V, capture_output=True, text=True, env=env)
        rc, txt = p.returncode, p.stdout
        lines = txt.splitlines()
        viol = [re.search(r'replay=\S*/([^/]+)\.json', l).group(1) for l in lines if l.startswith('VIOLATION')]
        summ = [l for l in lines if re.match(r'C\d\d tier=', l)]
        r = {'property': prop, 'exit': rc, 'detected': rc == 1, 'violations': viol[:8], 'wall_s': round(time.time() - t0, 1),
             'confirmed_replay': sum(1 for l in lines if l.startswith('VIOLATION') and 'no-failing-input-found' not in l),
             'by_proof': sum(1 for v in viol if not v.startswith('bounded.')), 'by_bounded': sum(1 for v in viol if v.startswith('bounded.')),
             'summary': summ[-1] if summ else None}
    finally:
        shutil.rmtree(scratch, ignore_errors=True)
    print(sd, rc, viol[:2], flush=True)
    return sd, r


with ThreadPoolExecutor(jobs) as ex:
    for sd, r in ex.map(run, seeds):
        out[sd] = r
        json.dump(dict(sorted(out.items())), open(res_path, 'w'), indent=1)
missed = [k for k, v in sorted(out.items()) if not v['detected']]
print('mutants: %d, detected: %d, missed: %s' % (len(out), len(out) - len(missed), missed))
