#!/usr/bin/env python3
"""Applies every behaviour-preserving rewrite in /verif/benign to a scratch export of /repo's HEAD, runs the
baseline tests and the quick check of the property it touches, and reports: a VIOLATION line or a CHECKER-ERROR
on such a tree would be a false alarm of the machinery (exit 2 = undecided is tolerated and listed).
usage: benign_all.py [-j N]"""
import json, os, re, shutil, subprocess, sys, tempfile
from concurrent.futures import ThreadPoolExecutor
V = os.path.dirname(os.path.dirname(os.path.abspath(__file__)))
idx = json.load(open(os.path.join(V, 'benign', 'INDEX.json')))
jobs = int(sys.argv[2]) if sys.argv[1:2] == ['-j'] else 2


def run(name):
    prop = idx[name]['property']
    scratch = tempfile.mkdtemp(prefix='lvbenign.')
    try:
        tree = os.path.join(scratch, 'tree')
        os.makedirs(tree)
        ar = subprocess.Popen(['git', '-C', '/repo', 'archive', 'HEAD'], stdout=subprocess.PIPE)
        subprocess.run(['tar', '-x', '-C', tree], stdin=ar.stdout, check=True)
        ar.wait()
        subprocess.run(['git', 'apply', os.path.join(V, 'benign', name + '.diff')], cwd=tree, check=True)
        t = subprocess.run(['/venv/bin/python', '-m', 'pytest', '-q', '-p', 'no:cacheprovider'], cwd=tree, capture_output=True, text=True,
                           env=dict(os.environ, PYTHONPATH=tree)).stdout.strip().splitlines()[-1]
        env = dict(os.environ, LVC_REPO=tree, LVC_OUT=os.path.join(scratch, 'out'))
        p = subprocess.run(['timeout', '2400', os.path.join(V, 'bin', 'lv'), 'check', prop], cwd=V, capture_output=True, text=True, env=env)
        alarms = [l for l in p.stdout.splitlines() if l.startswith(('VIOLATION', 'CHECKER-ERROR'))]
        return name, {'property': prop, 'tests': t[:40], 'exit': p.returncode, 'alarms': alarms[:3]}
    finally:
        shutil.rmtree(scratch, ignore_errors=True)


out = {}
with ThreadPoolExecutor(jobs) as ex:
    for name, r in ex.map(run, sorted(idx)):
        out[name] = r
        print(name, r['exit'], r['tests'], r['alarms'][:1], flush=True)
json.dump(out, open(os.path.join(V, 'benign', 'RESULTS.json'), 'w'), indent=1)
bad = [k for k, v in out.items() if v['alarms'] or v['exit'] in (1, 3)]
print('benign rewrites: %d, false alarms: %s, undecided: %s' % (len(out), bad, [k for k, v in out.items() if v['exit'] == 2]))
sys.exit(1 if bad else 0)
