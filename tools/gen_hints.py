#!/usr/bin/env python3
"""Regenerates strategy_hints.json: for every obligation that was NOT discharged by the first (plain z3, 3 s)
strategy on the current tree, the strategy that did discharge it.  Performance only (see lvc/prove.discharge).
usage: tools/gen_hints.py C03 C07 ...   (runs the work items of those properties and records the strategies)"""
import importlib, json, os, sys
import multiprocessing as mp
V = os.path.dirname(os.path.dirname(os.path.abspath(__file__)))
sys.path.insert(0, V)
from lvc import run


def main():
    props = sys.argv[1:] or ['C%02d' % k for k in range(1, 21)]
    path = os.path.join(V, 'strategy_hints.json')
    hints = json.load(open(path)) if os.path.exists(path) else {}
    items = []
    for p in props:
        mod = importlib.import_module('props.' + p)
        shards = getattr(mod, 'SHARDS', {})
        for q in mod.FUNCTIONS:
            n = shards.get(q, 1)
            items += [('function', p, q if n == 1 else '%s@%d/%d' % (q, i, n), 10000, set()) for i in range(n)]
        items += [('lemma', p, n, 10000, set()) for n, _ in getattr(mod, 'LEMMAS', [])]
    with mp.Pool(8) as pool:
        for r in pool.imap_unordered(run.work_item, items, chunksize=1):
            for ob in r['obligations']:
                if ob['status'] == 'discharged' and ob.get('solver', 'z3') not in ('z3', '-') and ob.get('time_s', 0) > 0.5:
                    hints[ob['name']] = ob['solver']
    json.dump(dict(sorted(hints.items())), open(path, 'w'), indent=0)
    print('hints:', len(hints))


if __name__ == '__main__':
    main()
