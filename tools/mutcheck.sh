#!/bin/bash
# usage: mutcheck.sh <patch.diff> <PROP> [<PROP>...]   -- applies the patch to /repo, runs the quick checks, reverts
patch="$1"; shift
cd /repo || exit 9
if ! git diff --quiet; then echo "repo dirty"; exit 9; fi
git apply "$patch" || { echo "patch does not apply"; exit 9; }
trap 'git -C /repo checkout -- .' EXIT INT TERM
for p in "$@"; do
  out=$(cd /verif && timeout ${MUT_TIMEOUT:-900} bin/lv check "$p" 2>&1); rc=$?
  echo "== $p exit=$rc"
  echo "$out" | grep -E "^(VIOLATION|UNDECIDED|CHECKER-ERROR|  obligation|C[0-9]+ tier)" | cut -c1-260 | head -12
done
git -C /repo checkout -- .
