"""C16 - Detector chain: right quantum efficiency at every pixel, exact digitisation."""
from contracts import detector as _d
from contracts import radiometry as _r

META = {
    'level_text': 'Proof for all image sizes and any number of wavelength slices: collect_charge is, at every pixel, the sum over slices of photons x QE for scalar and per-wavelength QE, for cubes and single frames; collect_charge_bayer, for the patterns RGGB / GRBG / BGGR / 3x3 RGBGBRBRG / 1x1 and oversampling 1-5 with symbolic image size (any number of tiles), gives every oversampled sub-pixel exactly the QE of the colour the tiled pattern assigns to its native pixel, flattened and per channel; format_bayer_string is row-major and refuses non-square / foreign strings; adc, for scalar, polynomial (order 1-3), per-pixel and per-pixel-polynomial gains with and without saturation, returns max(floor(sum_d gain_d min(e, cap)^(K-d)), 0) at every pixel, never negative, warns exactly when a pixel exceeds the capacity and warnings are requested, and does not write to its input. With QE given as a Spectrum (Spectrum.sample abstract as a pointwise interpolant; caller units nm / um / m / angstrom) the spectrum is sampled exactly once, at the caller\'s wavelengths and in the caller\'s wavelength unit, and the charge is the slice sum of photons x that sample; the unit conversion that sampling performs on a unitless spectrum (Spectrum.to, all 16 unit pairs) scales the grid by the unit ratio, records the new unit with it, keeps the values and is undone by the reverse conversion. The numerical agreement of the Spectrum representation across wavelength units (Spectrum.sample converts and interpolates: scipy), output dtype, monotonicity and a wider set of patterns are bounded native stand-ins.',
    'level_note': 'Patterns and oversampling factors are enumerated (finite list), image sizes and cube depth are symbolic. scipy interp1d (Spectrum QE) outside the verifier. A2 reals; np.floor exact.',
}
FUNCTIONS = ['lentil.detector.collect_charge#cube-scalar-qe', 'lentil.detector.collect_charge#cube-vector-qe',
             'lentil.detector.collect_charge#frame-scalar-qe'] + list(_d.CC_SPECTRUM) + list(_d.BAYER) + list(_d.ADC)
LEMMAS = list(_d.LEMMAS)
# the efficiency spectrum is unitless: Spectrum.sample converts it with Spectrum.to before interpolating, so the
# conversion of a unitless spectrum (grid scaled by the unit ratio, recorded unit updated with it, values kept,
# round trip restores) carries the any-wavelength-unit clause, also for a spectrum object that is used again
LEMMAS = LEMMAS + [l for l in _r.spectrum_to_lemmas() if ',None->' in l[0]]


def bounded(tier, seed):
    from lvc.run import run_bounded
    return run_bounded('bounded_C16.py', tier, seed)
