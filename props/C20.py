"""C20 - Array geometry helpers share one centre convention (index floor(n/2))."""
from contracts import shape as _shape
from contracts import util as _util

META = {
    'level_text': 'Proof for all shapes, parities, shifts and radii of: pad (2-D and cubes, every grow/shrink mix: the full index map, hence the origin sample floor(n/2) -> floor(N/2)), subarray, window, boundary (tight bounding box, quantified), boundary_slice (bounding box widened and clamped, contains the support), slice_offset (local index keeps its global coordinate), mesh origin, and for circle / rectangle / hexagon: values in [0,1], binary without antialiasing, exact integer translation, half-turn and mirror symmetry. pad to a larger shape then back is the identity (lemma over pad\'s contract, 2-D and cubes). rebin of 2-D arrays (every shape and factor: each output sample is the sum of its f x f block, shapes that are not a whole number of blocks are refused with ValueError, the input is not written). centroid (any shape, non-zero total): (sum i a / sum a, sum j a / sum a) in index coordinates (the sum over the flattened index is written as the double sum: row-major re-indexing, library contract). rebin of cubes, sum preservation by re-indexing, hex_ring and hex_segments (count, non-overlap for gap > 0, border clearance) are bounded native stand-ins, reported separately and never counted as proved.',
    'level_note': 'Trusted: lvc encoding; sqrt / sin / cos uninterpreted (sqrt: s >= 0, s*s = x; sin, cos: half-turn identities instantiated at the six hexagon side angles); numpy contracts listed in the evidence; reals for floats (A2). "Equal area up to edge sampling" is not decided.',
}
FUNCTIONS = [
    'lentil.util.pad', 'lentil.util.subarray', 'lentil.util.window', 'lentil.util.boundary',
    'lentil.helper.mesh', 'lentil.helper.boundary_slice', 'lentil.helper.slice_offset',
    'lentil.shape.circle', 'lentil.shape.rectangle', 'lentil.shape.hexagon',
] + list(_util.REBIN) + ['lentil.util.centroid#moments']
LEMMAS = list(_shape.LEMMAS) + list(_util.LEMMAS)


def bounded(tier, seed):
    from lvc.run import run_bounded
    return run_bounded('bounded_C20.py', tier, seed)
