"""C14 - Unit conversions are consistent and Planck's law is unit-independent."""
from contracts import radiometry as _r

META = {
    'level_text': 'Proof by complete enumeration plus symbolic algebra, executing the real conversion methods through the interpreter with exact rationals for the decimal literals: all 64 wavelength-unit triples compose (A->B->C = A->C, A->A = 1, every factor is the ratio of the SI sizes, aliases and case agree); all 27 flux-unit triples compose for symbolic flux and wavelength, identities and round trips; planck_radiance / planck_exitance in all 12 (wavelength unit, flux unit) pairs convert back to the same SI value (exp uninterpreted, equal arguments) and exitance = pi * radiance; vegaflux zero points agree across units. Spectrum.to on the real code for all 16 (wavelength unit, value unit) start states and every target, any grid length: wavelengths scaled by the SI ratio, density values divided by it (trapezoid integral preserved by Sigma-extensionality), unitless values kept, units updated, round trips restore wave and value, flux conversions are the conversion of the unit classes in SI and round-trip, to(a, b) equals to(a) then to(b) in both argument orders, unknown units / unitless-to-flux refused (the wavelength-grid validation is replaced by the obligation that every grid handed to it is positive and strictly increasing). The Wien peak and the Stefan-Boltzmann total are bounded native stand-ins.',
    'level_note': 'Spectrum.wave setter validation (numpy sort) abstract: shown to receive only valid grids; that it accepts those is checked natively. Float literals are read as the exact decimals written in the source (1e-6 = 1/10^6); A2 reals. Wien / Stefan-Boltzmann are transcendental facts about the Planck function: native quadrature only.',
}
FUNCTIONS = []
LEMMAS = _r.wave_unit_lemmas() + _r.spectrum_to_lemmas()


def bounded(tier, seed):
    from lvc.run import run_bounded
    return run_bounded('bounded_C14.py', tier, seed)
