"""C17 - Resampling a plane changes its sampling, not its optics."""
from contracts import util as _u

META = {
    'level_text': 'Proof of the bookkeeping for all shapes / parities, all positive real scale factors (down- and up-sampling alike) and monolithic or 2-segment masks, with scipy\'s map_coordinates abstract (an uninterpreted interpolant per call that reproduces its input at integer positions). util.rescale on the real code (real images, every shape and positive scale, cubic and order-0 interpolation): ceil(n*scale) samples per axis; output sample (i, j) reads input position ((i - N/2)/scale + n/2, (j - M/2)/scale + m/2) on BOTH axes with their own sizes; the support mask of the image is interpolated linearly on the same grid, cut to 0 below machine epsilon and multiplied in; identity at scale 1. Plane.rescale / resample on top of that contract: the returned plane is new (deep copy: the original and the caller\'s arrays are not written), its pixel scale is the original divided by exactly the scale on both axes, amplitude / OPD / every segment mask have ceil(n*scale) samples, the mask is binary and of integer type with its segment structure and recomputed slices, the interpolated amplitude is divided by the scale exactly once and the OPD is not, scale = 1 is the identity (given that spline interpolation reproduces its knots), the physical extent pixelscale x samples lies in [original, original + one new sample), resample(ps) is rescale(pixelscale/ps) and refuses unsampled or non-uniformly sampled planes. Preservation of transmitted power and of the propagated image "to interpolation accuracy" cannot be decided by any contract on scipy\'s map_coordinates: bounded native stand-in on smooth apodised apertures (even / odd / non-square, scales 0.5-3, segmented).',
    'level_note': 'lentil.util.rescale (scipy.ndimage.map_coordinates) is abstract: shape ceil(n*scale) and identity at scale 1 without unitary renormalisation are assumed library facts. An interpolated mask that comes out empty makes numpy raise IndexError (permitted).',
}
FUNCTIONS = ['lentil.plane.Plane.rescale#arrays', 'lentil.plane.Plane.rescale#scalar-opd', 'lentil.plane.Plane.rescale#two-segments',
             'lentil.plane.Plane.resample#arrays', 'lentil.plane.Plane.__init__', 'lentil.helper.boundary_slice']
FUNCTIONS = FUNCTIONS + list(_u.RESCALE_BODY)
LEMMAS = []


def bounded(tier, seed):
    from lvc.run import run_bounded
    return run_bounded('bounded_C17.py', tier, seed)
