"""C13 - Spectrum arithmetic is pointwise, commutative and unit-agnostic."""
from contracts import radiometry as _r

META = {
    'level_text': 'Proof for all spectra (any number of samples, non-uniform grids; class invariant: strictly increasing positive wavelengths), with scipy interpolation abstract as a pointwise function of the wavelength: operations with a scalar act element-wise on the unchanged grid, return a new spectrum in the same units and write neither operand; _interp_common builds the uniform grid from the smaller to the larger end of the two ranges with (max-min)/ceil((max-min)/d) <= d, gives each operand its interpolated value where the grid point lies inside its range and the fill value elsewhere, samples BOTH operands in the first operand\'s wavelength unit (nm/nm, um/um, nm/um, um/angstrom), converts an operand given in another unit on a copy and never writes the caller\'s objects; add and multiply of two spectra are symmetric in their operands and return a new object. Numerical agreement with an independent reference for all five operators, sampling and interpolation options, fill values, range configurations and units, and repeated calls with different options, are bounded native stand-ins.',
    'level_note': 'Spectrum.sample (scipy interp1d) abstract: INTERP(state, method, fill, x); the wavelength-grid validation of the setter (numpy sort) is an abstract validity flag; accuracy of quadratic / cubic splines is not decided. A2 reals.',
}
FUNCTIONS = []
LEMMAS = _r.spectrum_lemmas()
# unit-agnostic arithmetic rests on Spectrum.to (sample() converts the operand): its lemmas are re-verified here
LEMMAS = LEMMAS + [l for l in _r.spectrum_to_lemmas() if '+' not in l[0]]


def bounded(tier, seed):
    from lvc.run import run_bounded
    return run_bounded('bounded_C13.py', tier, seed)
