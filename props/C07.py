"""C07 - Wavefront views agree with each other and planes act as pointwise phasors."""
META = {
    'level_text': 'Proof (reals idealised), all shapes / parities / offsets symbolic: Wavefront.field is the sum of the embeddings of its fields; Wavefront.intensity equals |field|^2 sample by sample also when fields overlap (four-step argument: accumulated value = sum of |e_k|^2 over the reduced fields, at most one reduced field non-zero per sample, reduce keeps the total, and the algebraic lemma |sum|^2 = sum |.|^2 on pairwise one-zero complex numbers); Wavefront.insert adds weight x intensity and writes nothing else; Plane.multiply multiplies the total field pointwise by amplitude x mask x exp(+2 pi i OPD / lambda) at every plane coordinate (zero outside the mask and outside the arrays) for array and scalar amplitude / OPD, one or two fields, one or two segments, the default plane (identity) and the default wavefront; the wavelength is kept, a Pupil hands over its focal length; _mul_pixelscale raises ValueError exactly for two different pixel scales. Collections of 1-3 fields (bounded in the number of fields only). The single-pixel / one-element conflation is a recorded known finding whose complement is proved.',
    'level_note': 'Class invariant of Plane assumed for multiply and proved for the constructor separately (mask binary, _slice = bounding slice of the support). exp/cos/sin uninterpreted (equal arguments suffice). insert, reduce, slice_offset, array_extent, intersect... used through their contracts (C06, C20) and re-verified here. A2: reals.',
}
FUNCTIONS = ['lentil.wavefront.Wavefront.field#1', 'lentil.wavefront.Wavefront.field#2', 'lentil.wavefront.Wavefront.field#3',
             'lentil.wavefront.Wavefront.intensity#1', 'lentil.wavefront.Wavefront.intensity#2', 'lentil.wavefront.Wavefront.intensity#3',
             'lentil.wavefront.Wavefront.insert#1', 'lentil.wavefront.Wavefront.insert#2', 'lentil.wavefront.Wavefront.insert#3',
             'lentil.plane._mul_pixelscale', 'lentil.plane.Plane.__init__',
             'lentil.plane.Plane.multiply#arrays', 'lentil.plane.Plane.multiply#scalar-amplitude',
             'lentil.plane.Plane.multiply#scalar-opd', 'lentil.plane.Plane.multiply#two-fields',
             'lentil.plane.Plane.multiply#two-segments', 'lentil.plane.Plane.multiply#two-segments-scalars', 'lentil.plane.Plane.multiply#default-plane',
             'lentil.plane.Plane.multiply#default-plane-default-wavefront', 'lentil.plane.Plane.multiply#pupil',
             'lentil.field.insert#array', 'lentil.field.reduce#2', 'lentil.field.reduce#3', 'lentil.helper.slice_offset',
             'lentil.extent.array_extent', 'lentil.extent.intersect', 'lentil.extent.intersection_slices',
             'lentil.extent.intersection_shift']
LEMMAS = []
SHARDS = {'lentil.field.insert#array': 2, 'lentil.plane.Plane.multiply#two-fields': 8, 'lentil.plane.Plane.multiply#two-segments': 8, 'lentil.plane.Plane.multiply#two-segments-scalars': 8,
          'lentil.plane.Plane.multiply#arrays': 2, 'lentil.plane.Plane.multiply#pupil': 2}
