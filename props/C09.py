"""C09 - FFT propagation agrees with DFT propagation; scratch space is transparent."""
from contracts import propagate as _p

META = {
    'level_text': 'scratch_shape on the real code (scalar and per-axis sampling, one or several wavelengths) returns, per axis, the FFT grid of one of the given wavelengths that is at least the grid of each of them, and the grid round(lambda z os/(dx du)) is monotone in lambda: a buffer of exactly the advertised shape is accepted for every wavelength of the band. Proof for all field shapes / offsets (1 or 2 fields), wavefront shapes, output shapes, oversampling, per-axis pixel scales and scratch buffers of any size and content: the array propagate_fft hands to the FFT is exactly the total field with its origin sample at index floor(N/2) of the N_r x N_c grid and zero elsewhere - the same array with and without a scratch buffer, whatever the buffer held before; the grid is N_k = round(lambda z os/(dx_k du_k)); NotImplementedError is raised exactly when a field carries tilt, ValueError exactly when a requested shape exceeds N/oversample or a scratch dimension is smaller than N (so a buffer of exactly scratch_shape is accepted); metadata (reported wavelength, focal length, du/oversample, shape, ptype, centred output field); nothing but the scratch buffer is written. alpha at the reported wavelength is 1/N_k on both axes when dx_r du_r = dx_c du_c (the anisotropic case is a recorded known finding). The identity of the centred FFT (_fft2) with the unitary DFT at alpha = 1/N, and the end-to-end FFT = DFT comparison, are bounded native stand-ins.',
    'level_note': '_fft2 (numpy.fft) is abstract in the proof: bounded stand-in for all grids up to 16x16 (thorough: 40). insert / pad / Wavefront.field through their contracts (C06, C20, C07). Wavefront class invariant assumed: every field lies inside the centred array of Wavefront.shape (it is what Plane.multiply and the propagators produce). A2 reals.',
}
FUNCTIONS = ['lentil.propagate._fft_shape', 'lentil.propagate.propagate_fft#no-scratch', 'lentil.propagate.propagate_fft#scratch',
             'lentil.util.pad', 'lentil.field.insert#array', 'lentil.wavefront.Wavefront.field#2'] + list(_p.SCRATCH)
LEMMAS = list(_p.C09_LEMMAS)
SHARDS = {'lentil.field.insert#array': 3}


def bounded(tier, seed):
    from lvc.run import run_bounded
    return run_bounded('bounded_C09.py', tier, seed)
