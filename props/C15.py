"""C15 - Spectrum integration, binning and resizing keep the spectrum well-formed."""
from contracts import radiometry as _r

META = {
    'level_text': 'Proof (interpolation and grid validation abstract): resample and in-place append either succeed with one value per wavelength on the requested / extended grid (retained samples unchanged) or are refused and then leave wave AND value exactly as they were; bin with the trapezoid rule for three centres in nm and um, both end treatments: one value per centre, edges at the mid-points, each bin the trapezoid of the two edge samples taken in the REQUESTED unit, and with power preservation the bins are normalised against integrate(min, max) with the same rule and sum to it; the trapezoid sum is linear in the values and exact for linear data (library contract of np.trapz). Spectrum.integrate with the trapezoid rule on the real code (all grid lengths; no range, one-sided and two-sided ranges): the result is the trapezoid sum over exactly the consecutive sample pairs inside the closed range (the selection np.intersect1d(np.where, np.where) is shown contiguous from the class invariant), an unknown method raises ValueError, the spectrum is not modified; over that postcondition, additivity over adjacent intervals meeting at a sample point and linearity in the values are proved. Spectrum.trim (0 <= tol < 1) and Spectrum.crop (at least one sample in range) on the real code, any grid length: trim keeps exactly the block from the first to the last sample above tol * max(value) (all-zero spectra untouched, non-positive maxima refused and untouched), crop keeps exactly the samples of the closed range [lo, hi] (np.where / np.delete selections, composed over both ends); retained wavelengths and values are unaltered and stay paired and every grid handed to the wavelength setter is positive and strictly increasing. Simpson integration and binning, non-negativity, pad, crop at sample points, and random sequences of resizing operations including refused ones are bounded native stand-ins.',
    'level_note': 'scipy interp1d / simpson, numpy sort / where / delete / intersect1d based selection code is outside the verifier: covered natively. The wavelength-grid validation is an abstract validity flag in the proofs (its refusal behaviour is exercised natively). A2 reals.',
}
FUNCTIONS = list(_r.INTEGRATE)
LEMMAS = _r.c15_lemmas()


def bounded(tier, seed):
    from lvc.run import run_bounded
    return run_bounded('bounded_C15.py', tier, seed)
