"""C12 - Zernike fit, compose and remove are mutually inverse for any mode set."""
from contracts import zernike as _z

META = {
    'level_text': 'Proof for all masks, OPDs and caller-supplied (rho, theta), both normalisation flags, and the mode sets [4], [2,3], [7,4,11], [1,2,3,4] (unordered, non-contiguous): zernike_basis row k is mode modes[k] with the caller\'s flag and coordinates; zernike_compose is sum_k c_k x mode (k+1); zernike_fit pseudo-inverts the vectorised basis of exactly the requested modes at the caller\'s coordinates and returns the projections sum_p pinv[p,k] opd[p]; zernike_remove calls the fit with the caller\'s opd, mask, modes, rho and theta (argument binding) and returns opd - sum_k c_k x mode modes[k](rho, theta). With pinv(B) B = I on full row rank (numpy\'s contract) these give fit(compose(c)) = c, idempotent removal and vanishing residual coefficients; those consequences, conditioning aside, are additionally checked natively on circular, off-centre, hexagonal, antialiased and segmented masks.',
    'level_note': 'numpy.linalg.pinv abstract (a fresh matrix; Moore-Penrose identities are numpy\'s contract, exercised by the native stand-in). Mode sets are a finite list, everything else symbolic. A2 reals.',
}
FUNCTIONS = ['lentil.zernike.zernike_index']
LEMMAS = _z.c12_lemmas()


def bounded(tier, seed):
    from lvc.run import run_bounded
    return run_bounded('bounded_C12.py', tier, seed)
