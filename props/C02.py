"""C02 - Far-field propagation puts the Fraunhofer field on the right output samples."""
META = {
    'level_text': 'Proof (reals idealised) for every field shape / parity / offset, wavefront shape, output shape, propagation-window shape, integer oversampling, per-axis input and output pixel scales, real tilt displacement (opaque behind Field.shift\'s contract) and both directions: propagate_dft appends, per input field, exactly one Field whose extent is (output extent or mask bounding box) intersected with the propagation window re-centred by fix(shift) - or nothing when that is empty - and whose every sample equals the unitary Fraunhofer sum with alpha_k = dx_k du_k/(lambda z oversample) evaluated at the plane coordinate field.insert / Wavefront.field give that sample, minus the full (integer + sub-pixel) displacement: the one-pixel parity obligation between dft2\'s output origin and the Field offset is discharged for all parities. Metadata (wavelength, focal length, du/oversample, shape*oversample, flipped ptype) is proved. Proved for wavefronts holding one field (with and without output mask) and two fields; the loop body is the same for every field. A bounded native stand-in (reported separately) compares masked and windowed propagations with non-rectangular output masks against a plain numpy matrix DFT.',
    'level_note': 'dft2 is used through its contract (proved under C01), array_extent / intersect / intersection_* / array_center through theirs (C06), boundary through its bounding-box contract (C20), Field.shift through an opaque function of its arguments (its value is the subject of C04). Assumes A2 (reals) and lemma L1 as in C01. Zero outside the window follows from insert\'s contract (C06) and Wavefront.field (C07).',
}
FUNCTIONS = ['lentil.propagate._dft_alpha', 'lentil.propagate.propagate_dft', 'lentil.propagate.propagate_dft#mask',
             'lentil.propagate.propagate_dft#2', 'lentil.field.Field.shift',
             # the callee contracts the clauses above rest on are re-verified here as well
             'lentil.fourier.dft2', 'lentil.fourier._dft2_coords', 'lentil.extent.array_extent',
             'lentil.extent.array_center', 'lentil.extent.intersect', 'lentil.extent.intersection_extent',
             'lentil.extent.intersection_shape', 'lentil.extent.intersection_shift', 'lentil.field.Field.__init__',
             'lentil.field.insert#array', 'lentil.util.boundary']
SHARDS = {'lentil.propagate.propagate_dft#2': 6, 'lentil.propagate.propagate_dft#mask': 3, 'lentil.field.insert#array': 3}
LEMMAS = []


def bounded(tier, seed):
    from lvc.run import run_bounded
    return run_bounded('bounded_C02.py', tier, seed)
