"""C03 - Splitting an aperture into segments or sub-arrays never changes the result."""
from contracts import segment as _s

META = {
    'level_text': 'Proof by composition of function contracts, each discharged here for all shapes / offsets: (1) Plane.multiply multiplies the total field by the SUM over segments of amplitude*mask_n*exp(i phase) at every plane coordinate, each cropped phasor carrying the offset that keeps its global coordinates (slice_offset, boundary_slice contain the support); (2) for masks that partition a global mask that sum is the monolithic phasor (algebra, k = 2..4); (3) propagate_dft evaluates, for every Field, the Fraunhofer sum at global coordinates (dft2 offset argument) on windows that do not change evaluated values; (4) overlapping output fields are added as complex amplitudes before |.|^2 (reduce merges overlapping fields, Wavefront.intensity = |field|^2, collections of up to 3 fields). The step from per-field sums to the sum over the embedding (re-indexing and zero-extension of a finite sum, linearity) is a lemma about the spec sums, assumed and validated by the bounded native stand-in that compares segmented and monolithic descriptions through the real Plane / Wavefront / propagate path.',
    'level_note': 'Assumed math lemma L5: a finite sum over a sub-array with offset equals the sum over the whole plane of the zero-extended embedding; linearity of finite sums. Known finding (C06/C07 family): a segment or product with exactly one element. A2 reals.',
}
FUNCTIONS = ['lentil.plane.Plane.multiply#two-segments', 'lentil.plane.Plane.multiply#two-segments-scalars',
             'lentil.plane.Plane.multiply#scalar-amplitude', 'lentil.plane.Plane.multiply#scalar-opd', 'lentil.plane.Plane.multiply#arrays', 'lentil.plane.Plane.multiply#two-fields',
             'lentil.helper.slice_offset', 'lentil.helper.boundary_slice', 'lentil.propagate.propagate_dft',
             'lentil.propagate.propagate_dft#2', 'lentil.fourier.dft2', 'lentil.field.reduce#2', 'lentil.field.reduce#3',
             'lentil.field._merge#2', 'lentil.field._merge#3', 'lentil.wavefront.Wavefront.intensity#2',
             'lentil.wavefront.Wavefront.intensity#3', 'lentil.wavefront.Wavefront.field#2', 'lentil.extent.intersect',
             'lentil.extent.intersection_slices', 'lentil.extent.intersection_shift', 'lentil.field.Field.__mul__']
LEMMAS = list(_s.LEMMAS)
SHARDS = {'lentil.plane.Plane.multiply#two-segments': 8, 'lentil.plane.Plane.multiply#two-segments-scalars': 8, 'lentil.plane.Plane.multiply#two-fields': 8,
          'lentil.plane.Plane.multiply#arrays': 2, 'lentil.propagate.propagate_dft#2': 6}
TRUSTED = ['math lemma L5: sub-array sum with offset = whole-plane sum of the zero-extended embedding; linearity of finite sums']


def bounded(tier, seed):
    from lvc.run import run_bounded
    return run_bounded('bounded_C03.py', tier, seed)
