"""C06 - Field and extent bookkeeping equals arithmetic on an infinite zero-padded plane."""
META = {
    'level_text': 'Proof, for all shapes (>= 1, either parity, non-square) and all integer offsets of either sign: every extent query is equivalent to its set of integer pixel coordinates; Field.__mul__ is the pointwise product of the embeddings; insert adds exactly the part of the embedding inside the target (all four clipping sides, wholly outside included) and writes nothing else; merge is the sum; boundary is the bounding box for any number of fields (loop invariant). reduce/_merge are proved for collections of 1, 2 and 3 fields with symbolic geometry (bounded in the number of fields only). One-element fields are a recorded known finding; its complement is proved.',
    'level_note': 'Trusted: lvc encoding of Python/NumPy semantics (slices with wrap-around, broadcasting, views, floor division), numpy library contracts listed in the evidence, z3. Reals idealised (A2) - only the complex product/sum in the embedding clauses depends on it; all index arithmetic is exact integer reasoning.',
}
FUNCTIONS = [
    'lentil.extent.array_extent', 'lentil.extent.array_center', 'lentil.extent.intersect',
    'lentil.extent.intersection_extent', 'lentil.extent.intersection_shape',
    'lentil.extent.intersection_slices', 'lentil.extent.intersection_shift',
    'lentil.field.Field.__init__', 'lentil.field.Field.__mul__', 'lentil.field.insert',
    'lentil.field.boundary', 'lentil.field.merge', 'lentil.field.overlap',
    'lentil.field._merge#1', 'lentil.field._merge#2', 'lentil.field._merge#3',
    'lentil.field.reduce#1', 'lentil.field.reduce#2', 'lentil.field.reduce#3',
]
LEMMAS = []

SHARDS = {'lentil.field.insert': 4, 'lentil.field.reduce#3': 2}
