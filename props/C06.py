"""C06 - Field and extent bookkeeping equals arithmetic on an infinite zero-padded plane."""
FUNCTIONS = [
    'lentil.extent.array_extent', 'lentil.extent.array_center', 'lentil.extent.intersect',
    'lentil.extent.intersection_extent', 'lentil.extent.intersection_shape',
    'lentil.extent.intersection_slices', 'lentil.extent.intersection_shift',
    'lentil.field.Field.__init__', 'lentil.field.Field.__mul__', 'lentil.field.insert',
    'lentil.field.boundary', 'lentil.field.merge', 'lentil.field.overlap',
    'lentil.field._merge#1', 'lentil.field._merge#2', 'lentil.field._merge#3',
    'lentil.field.reduce#1', 'lentil.field.reduce#2', 'lentil.field.reduce#3',
]
LEMMAS = []
