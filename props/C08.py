"""C08 - Plane-type state machine follows the documented table."""
from contracts import ptype as _p

META = {
    'level_text': 'Every plane class with a ptype keyword (Plane, Tilt, DispersiveTilt, Grism) reports the requested type for all five types, given by name or as object; propagate_dft and propagate_fft, executed on a real one-field wavefront, flip pupil <-> image and refuse type none with TypeError. Proof by complete enumeration with the documentation as oracle: the rst tables are parsed on every run and every (plane type x wavefront type) cell - for Plane(ptype=...), every documented plane class, wavefronts with and without fields, and wavefronts whose ptype object is an equal copy - is decided by executing the real constructors and multiply methods through the interpreter (symbolic wavelength, focal length and tilt angles): the result type is the documented one or TypeError is raised, a refusal writes to neither operand, propagation maps pupil <-> image and refuses none, PType equality/hash are consistent, and the Wavefront.ptype setter keeps the type in {none, pupil, image} (the induction step that extends the single-step table to sequences of any length). Rotate and Flip are a recorded known finding.',
    'level_note': 'Trusted: lvc interpreter semantics, the rst table parser (fails closed if it does not find 15 cells), numpy models listed in the evidence. Sequences are covered by induction over the type invariant, not by enumeration.',
}
FUNCTIONS = []
LEMMAS = _p.all_lemmas()
