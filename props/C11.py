"""C11 - Zernike modes are the Noll-ordered orthonormal polynomials."""
from contracts import zernike as _z

META = {
    'level_text': 'Proof: zernike_index, for every j >= 1 (unbounded; the list-building loop has an inductive invariant, sqrt idealised as s >= 0, s*s = 1+8j), returns the row n with n(n+1)/2 < j <= (n+1)(n+2)/2, an admissible |m| <= n with n-|m| even equal to Noll\'s position formula, m > 0 only for even j and m < 0 only for odd j, ValueError exactly for j < 1; the map is injective. For every (n, m) with n <= 8 and all rho: R equals the textbook radial polynomial (exact rational coefficients) and is 1 at rho = 1; for every j <= 45, all masks, rho, theta and both normalisation flags: the mode is norm x radial x azimuthal inside the mask and 0 outside, depends on the mask only through != 0, with sqrt(n+1) (x sqrt 2 for m != 0) exactly when normalised. zernike_coordinates: rho x max is the distance to the centroid for either parity of the array size. Orthonormality over the disk, |Z| <= 1, float sqrt in the index for j up to 10^6 and the centroid origin on concrete masks are bounded native stand-ins.',
    'level_note': 'Bounded in the radial order (n <= 8, j <= 45) for the polynomial / mode clauses; unbounded for the index map. lentil evaluates sin(m theta) with m < 0, i.e. the odd-j modes carry the opposite sign to Noll\'s sin(|m| theta) for a caller-supplied theta, consistently for every odd j: the statement does not fix that sign, the clause pins lentil\'s convention. util.centroid abstract here (bounded under C20), np.max by its defining axioms. A2 reals.',
}
FUNCTIONS = ['lentil.zernike.zernike_index']
LEMMAS = _z.lemmas()


def bounded(tier, seed):
    from lvc.run import run_bounded
    return run_bounded('bounded_C11.py', tier, seed)
