"""C18 - Stochastic models are reproducible from their seed and physically bounded."""
from contracts import stochastic as _s

META = {
    'level_text': 'Proof under the library contract "a Generator from default_rng(seed) is a deterministic function of the seed and of the sequence of calls made on it": for EVERY integer seed (0 included) shot_noise (Poisson), read_noise (float and integer frames), dark_current and rule07_dark_current with pattern noise are deterministic in (arguments, seed) and never touch the module-level NumPy random functions; Poisson shot noise is non-negative, integer-valued and shaped like its input, a frame with a negative count is refused with ValueError; read noise is input + normal(0, electrons) draw at every pixel also for integer frames; a dark frame without pattern noise is floor(rate) on any shape. wfe.power_spectrum on the real code for every mask shape (numpy fft2 / ifft2 abstract): the only randomness is the first normal(size=[n, m]) draw of default_rng(seed), no global RNG; the result is mask * filtered noise * ONE factor rms * sqrt(N / sum masked^2) (both normalising sums identified by Sigma-extensionality), hence zero outside the mask and sum(result^2) = rms^2 * N over the N non-zero masked samples - the exact requested RMS - with the shape of the mask, square or not. Moments, "different seeds give different draws", power_spectrum end to end (FFT filter, determinism through the FFT) and cosmic_rays (shape, sign, finiteness over global random states) are bounded native stand-ins - no contract within reach can decide statistical moments.',
    'level_note': 'numpy Generator methods are uninterpreted functions of (seed, call number, index, distribution parameters) with only support axioms (Poisson >= 0 integer, lognormal > 0). The numerical FFTs inside power_spectrum (fresh abstract arrays per call: determinism of the filtered noise itself is left to numpy) and the ray tracer of cosmic_rays are outside the verifier.',
}
FUNCTIONS = []
LEMMAS = _s.lemmas()


def bounded(tier, seed):
    from lvc.run import run_bounded
    return run_bounded('bounded_C18.py', tier, seed)
