"""C10 - Calls are pure: no hidden mutation of inputs and no dependence on call history."""
from contracts import stochastic as _s
from contracts import detector as _d

META = {
    'level_text': 'Proof of frame conditions, function by function, for all inputs: the symbolic executor tags every array, list and object reachable from a parameter (and the arrays kept in the lru_cache of the DFT coordinates) and every store is an event; the obligation f::frame is that no store reaches anything outside the documented in-place targets. Discharged for Plane.__init__ (the mask is a binary copy, never the caller\'s array), Plane.multiply / Pupil.multiply (neither operand written; products get NEW tilt lists), fit_tilt (copy: original untouched, in place: only the plane), rescale / resample (deep copy, no shared mutable state), dft2 / idft2 (only out=; nothing stored into the cached coordinate arrays, so repeated shapes cannot poison later calls), field.insert and Wavefront.insert (only the target array), propagate_dft (nothing), propagate_fft (only the scratch buffer), pad, collect_charge, collect_charge_bayer, adc (input frame untouched). History clause: multiply consumes every recorded tilt of a segment after repeated fits. RNG clause: the seeded models use only default_rng(seed) for every integer seed. A native stand-in freezes caller arrays read-only, repeats and interleaves calls and compares histories.',
    'level_note': 'Frames are proved per function under numpy\'s view-vs-copy semantics as encoded by lvc (asarray / basic slices / broadcast_to / .T share storage; arithmetic, np.array, np.copy, np.where, deepcopy allocate). Spectrum.sample converts its operand\'s unit in place (physical spectrum unchanged: judged under C13). Thread interleavings are out of scope.',
}
FUNCTIONS = ['lentil.plane.Plane.__init__', 'lentil.plane.Plane.multiply#arrays', 'lentil.plane.Plane.multiply#pupil',
             'lentil.plane.Plane.multiply#fitted-tilts', 'lentil.plane.Plane.fit_tilt#copy', 'lentil.plane.Plane.fit_tilt#inplace',
             'lentil.plane.Plane.fit_tilt#segmented-copy', 'lentil.plane.Plane.fit_tilt#second-fit-inplace',
             'lentil.plane.Plane.rescale#arrays', 'lentil.plane.Plane.rescale#two-segments',
             'lentil.fourier.dft2', 'lentil.fourier.idft2', 'lentil.field.insert#array', 'lentil.field.Field.__mul__',
             'lentil.wavefront.Wavefront.insert#2', 'lentil.wavefront.Wavefront.field#2', 'lentil.wavefront.Wavefront.intensity#2',
             'lentil.propagate.propagate_dft', 'lentil.propagate.propagate_fft#scratch', 'lentil.propagate.propagate_fft#no-scratch',
             'lentil.util.pad', 'lentil.detector.collect_charge#cube-vector-qe',
             'lentil.detector.collect_charge_bayer#RGGB,os=2,flat', 'lentil.util.rescale#cubic-nearest-callers-mask'] + list(_d.ADC)
LEMMAS = [l for l in _s.lemmas()]
SHARDS = {'lentil.field.insert#array': 3, 'lentil.plane.Plane.multiply#arrays': 2, 'lentil.plane.Plane.multiply#pupil': 2,
          'lentil.plane.Plane.multiply#fitted-tilts': 6}


def bounded(tier, seed):
    from lvc.run import run_bounded
    return run_bounded('bounded_C10.py', tier, seed)
