"""C04 - Tilt carried as metadata is optically identical to tilt in the OPD."""
from contracts import plane as _pl

META = {
    'level_text': 'Proof (reals): Field.shift, executed on Tilt objects built by the real constructors, returns row = +z*x_angle*oversample/du_row and col = -z*y_angle*oversample/du_col for 0, 1 and 2 tilt elements (sum; order-independent), i.e. the x/y swap, the signs and the per-axis pixel scale of the statement; Tilt.shift and first-order DispersiveTilt.shift are pure translations, the dispersive displacement lies on the trace polynomial at the arc length the dispersion polynomial maps to the wavelength; Wavefront(tilt=) wraps the right Tilt; Plane.multiply hands every recorded tilt of a segment (after one or two fits) to that segment\'s fields; the phase identity "OPD ramp = kernel shifted by s = z t os/du on the same axis"; propagate_dft applies the full displacement (integer + sub-pixel) to the evaluated coordinates (C02 clause, re-verified here). fit_tilt on the real code (monolithic and 2-segment planes, copy and in place, first and second fit; numpy lstsq abstract): each segment is fitted with the least-squares problem whose columns are piston, row ramp r*ps_row and column ramp -c*ps_col over the segment mask against the flattened OPD, the recorded Tilt carries exactly the fitted x and y coefficients, and new OPD + the ramp the recorded Tilt stands for = old OPD (times the sum of the masks). DispersiveTilt._arc_len hands its limits to the (abstract) quadrature in the given order, i.e. arc lengths are signed. That lstsq returns the least-squares solution and the end-to-end agreement of the four representations are bounded native stand-ins.',
    'level_note': 'np.linalg.lstsq and scipy root finding / quadrature (dispersive order > 1) are outside the verifier: the value of the lstsq solution is covered by a bounded native stand-in only. sqrt uninterpreted with s*s = x. A2 reals.',
}
FUNCTIONS = ['lentil.field.Field.shift', 'lentil.propagate.propagate_dft', 'lentil.propagate.propagate_dft#2', 'lentil.propagate._dft_alpha',
             'lentil.plane.Plane.multiply#fitted-tilts', 'lentil.fourier.dft2', 'lentil.field.Field.__mul__',
             'lentil.plane.Plane.fit_tilt#copy', 'lentil.plane.Plane.fit_tilt#inplace', 'lentil.plane.Plane.fit_tilt#segmented-copy',
             'lentil.plane.Plane.fit_tilt#second-fit-inplace']
LEMMAS = _pl.tilt_lemmas()


def bounded(tier, seed):
    from lvc.run import run_bounded
    return run_bounded('bounded_C04.py', tier, seed)

SHARDS = {'lentil.plane.Plane.multiply#fitted-tilts': 6, 'lentil.propagate.propagate_dft#2': 6}
