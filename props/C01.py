"""C01 - Matrix-triple-product DFT equals the defining Fourier sum and is invertible."""
from contracts import fourier as _f

META = {
    'level_text': 'Proof (reals idealised) for all shapes m,n,M,N >= 1, all real per-axis alpha and shift, integer offsets of either sign, both flags, with and without out=: every element of dft2 equals kappa * sum_y (sum_x e_r f) e_c with both origins at floor(n/2), kappa = sqrt(|alpha_r alpha_c|) exactly when unitary (Sigma-extensionality at skolem indices, cos/sin uninterpreted: equal arguments); out= returns the buffer holding the same values, TypeError exactly for a non-complex buffer; nothing is stored into the cached coordinate arrays. idft2 is proved equal to conj(dft2(conj F)) with its divisor, its kernel is the conjugate kernel, and the scalar factors the code puts in front of the forward and inverse sums satisfy c_f c_i m n = 1 for both flags and |c|^2 m n = 1 under unitary. Bounded stand-ins compare against a long-double evaluation of the defining double sum.',
    'level_note': 'Assumed math lemmas about the spec sums (never about the code): L1 finite-sum distributivity (nested = double sum), L2 orthogonality of the centred DFT kernel over one full period, L3 Parseval. A2: floats are reals (rounding of the matrix product is not decided). Trusted: lvc encoding, numpy contracts listed in the evidence.',
}
FUNCTIONS = ['lentil.fourier.dft2', 'lentil.fourier._dft2_coords', 'lentil.fourier.idft2']
LEMMAS = list(_f.LEMMAS)
TRUSTED = ['math lemma L1: finite-sum distributivity (the nested sum equals the defining double sum)']


def bounded(tier, seed):
    from lvc.run import run_bounded
    return run_bounded('bounded_C01.py', tier, seed)
