"""C05 - Propagation conserves energy."""
from contracts import energy as _e

META = {
    'level_text': 'Proof of the coefficient and structural obligations: with 1/alpha_k = N_k integer >= n_k and output shape (N_r, N_c) the factor the dft2 code puts in front of its sum satisfies kappa^2 N_r N_c = 1 (symbolic execution of the real dft2, all shapes, per-axis N); propagate_dft calls dft2 unitary with the per-axis alpha (C02 clauses re-verified here); _fft2 calls numpy fft2 exactly once with norm=\'ortho\' on an index rotation of its input; every intensity contribution is re^2 + im^2 >= 0 and Wavefront.intensity equals |field|^2 (C07 clauses re-verified); util.normalize_power (real code, all shapes, complex and real input): every sample is scaled by one kappa >= 0 with kappa^2 * sum|a|^2 = p, the divisor the code computes is sum|a|^2 (Sigma-extensionality), hence sum|result|^2 = p. That these coefficients give total intensity = input power is Parseval (math lemma L3, assumed). Bounded native stand-ins: full-period energy for DFT and FFT with per-axis sampling, nested windows non-negative / monotone / bounded, normalize_power.',
    'level_note': 'L3 (Parseval over one full period) assumed; numpy.fft.fft2 abstract (its unitarity under norm=\'ortho\' is numpy\'s contract); window monotonicity follows from non-negativity plus window-independence of evaluated samples (C02) and is additionally checked natively. A2 reals ("to rounding" is not decided).',
}
FUNCTIONS = ['lentil.fourier.dft2', 'lentil.propagate._dft_alpha', 'lentil.propagate.propagate_dft',
             'lentil.propagate.propagate_dft#mask',
             'lentil.wavefront.Wavefront.intensity#1', 'lentil.wavefront.Wavefront.intensity#2',
             'lentil.wavefront.Wavefront.insert#1', 'lentil.field.insert#array',
             'lentil.propagate.propagate_fft#no-scratch', 'lentil.propagate.propagate_fft#scratch'] + list(_e.NORMALIZE)
LEMMAS = list(_e.LEMMAS)


SHARDS = {'lentil.field.insert#array': 3, 'lentil.propagate.propagate_dft#mask': 3}


def bounded(tier, seed):
    from lvc.run import run_bounded
    return run_bounded('bounded_C05.py', tier, seed)
