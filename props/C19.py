"""C19 - Pixel, jitter and smear blurs are flux-preserving convolutions on any shape."""
from contracts import convolvable as _c

META = {
    'level_text': 'Proof for images of ANY shape (n rows x m columns, square or not) and all extents, pixel scales, integer oversampling factors and angles, with numpy\'s fft2 / ifft2 abstract: each blur performs exactly one forward transform of the image and one inverse transform of spectrum x K, where K(i, j) is the transfer function of the statement on the right axes - the separable pixel sinc sinc(f_row os) sinc(f_col os), the isotropic Gaussian exp(-2 pi^2 sigma^2 rho^2) with sigma = scale/pixelscale x oversample, the directional sinc along the requested angle - with unit gain at zero frequency; the output has the input shape and is a modulus (never negative); an extent in physical units with its pixel scale gives the same transfer function as the extent in samples; zero extent gives K = 1. Equality with the exact circular convolution, commutation with circular translation, total preservation and the identity at zero extent rest on the convolution theorem and ifft2(fft2) = id, which are facts about numpy\'s FFT, not about lentil: bounded native stand-in against an independent Fourier-domain reference on odd, even and non-square shapes.',
    'level_note': 'numpy.fft abstract (convolution theorem, inverse pair assumed: lemma L4); sinc / exp / cos / sin uninterpreted with sinc(0) = 1, exp(0) = 1; the final renormalisation divides by a finite sum that is named, not expanded (total preservation is checked natively). A2 reals.',
}
FUNCTIONS = []
LEMMAS = list(_c.LEMMAS)


def bounded(tier, seed):
    from lvc.run import run_bounded
    return run_bounded('bounded_C19.py', tier, seed)
