import itertools
import sys

import numpy as np
import lentil
import lentil.propagate as P
from common import Bounded, emit

tier, seed = sys.argv[1], int(sys.argv[2])
rng = np.random.default_rng(seed)

b = Bounded('propagate._fft2::centred_unitary_dft', 'all grids N_r x N_c with N <= %d, random complex data' % (16 if tier == 'quick' else 40),
            '_fft2 equals the centred unitary DFT dft2(x, 1/N, shape N, unitary) for even and odd N')
mx = 16 if tier == 'quick' else 40
for nr in range(1, mx + 1):
    for nc in (nr, (nr * 7) % mx + 1):
        x = rng.normal(size=(nr, nc)) + 1j * rng.normal(size=(nr, nc))
        a = P._fft2(x)
        ref = lentil.fourier.dft2(x, (1 / nr, 1 / nc), unitary=True)
        err = float(np.max(np.abs(a - ref))) / (1 + float(np.max(np.abs(ref))))
        b.check(err < 1e-10, {'N': (nr, nc), 'rel_err': err})

e = Bounded('propagate.propagate_fft::equals_dft_at_reported_wavelength',
            'pupils 12..15 px, 3 wavelengths, oversample 1..3, shapes None / even / odd, with / without dirty scratch (exact and larger); isotropic sampling',
            'FFT propagation equals DFT propagation at the reported wavelength; scratch transparent')
for n, wl, os_, shape in itertools.product((12, 13, 15), (600e-9, 633e-9, 611e-9), (1, 2, 3), (None, 8, 7)):
    amp = lentil.circle((n, n), n // 3, shift=(1, -1))
    r, c = lentil.helper.mesh((n, n))
    p = lentil.Pupil(amplitude=amp, opd=2e-8 * (r * r - c) / n, pixelscale=1e-3, focal_length=0.2)
    w = lentil.Wavefront(wl) * p
    a = lentil.propagate_fft(w, pixelscale=5e-6, oversample=os_, shape=shape)
    ss = lentil.scratch_shape(wl, 1e-3, 5e-6, 0.2, os_)
    for extra in (0, 3):
        sc = np.full((ss[0] + extra, ss[1] + extra), 5 - 2j)
        w1 = lentil.Wavefront(wl) * p
        a2 = lentil.propagate_fft(w1, pixelscale=5e-6, oversample=os_, shape=shape, scratch=sc)
        e.check(np.max(np.abs(a2.field - a.field)) < 1e-9 * (1 + np.max(np.abs(a.field))) and a2.wavelength == a.wavelength,
                {'n': n, 'wl': wl, 'os': os_, 'shape': shape, 'scratch_extra': extra})
    if shape is not None:
        w2 = lentil.Wavefront(wl) * p
        w2._wavelength = a.wavelength
        d = lentil.propagate_dft(w2, pixelscale=5e-6, shape=shape, oversample=os_)
        err = float(np.max(np.abs(a.field - d.field))) / float(np.max(np.abs(d.field)))
        e.check(err < 1e-9, {'n': n, 'wl': wl, 'os': os_, 'shape': shape, 'rel_err': err})
emit([b, e])
