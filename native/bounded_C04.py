import itertools
import sys

import numpy as np
import lentil
from common import Bounded, emit

tier, seed = sys.argv[1], int(sys.argv[2])
rng = np.random.default_rng(seed)
n = 32
dx = 1e-3


def prop(w, du, os_, shape):
    return lentil.propagate_dft(w, pixelscale=du, shape=shape, oversample=os_)


a = Bounded('C04::four_tilt_representations', '%d random cases: off-centre circular aperture 32x32, per-axis output pixels, oversample 1..2, integer and fractional displacements' % (6 if tier == 'quick' else 24),
            'OPD ramp, Tilt plane, Wavefront(tilt=) and fit_tilt give the same complex field wherever both evaluate it; peak moves +rows for x tilt, -columns for y tilt')
for case in range(6 if tier == 'quick' else 24):
    amp = lentil.circle((n, n), 9, shift=(int(rng.integers(-3, 4)), int(rng.integers(-3, 4))))
    r, c = lentil.helper.mesh((n, n))
    du = (float(rng.choice([4e-6, 5e-6])), float(rng.choice([5e-6, 8e-6])))
    os_ = int(rng.integers(1, 3))
    f = 5.0
    wl = 600e-9
    tx, ty = rng.uniform(-3e-6, 3e-6, size=2)
    shape = (40, 44)
    mask = amp > 0
    ramp = (tx * r * dx - ty * c * dx) * mask
    p_ramp = lentil.Pupil(amplitude=amp, opd=ramp, pixelscale=dx, focal_length=f)
    p_flat = lentil.Pupil(amplitude=amp, pixelscale=dx, focal_length=f)
    w_ramp = prop(lentil.Wavefront(wl) * p_ramp, du, os_, shape)
    w_tilt = prop((lentil.Wavefront(wl) * p_flat) * lentil.Tilt(x=tx, y=ty), du, os_, shape)
    w_wft = prop(lentil.Wavefront(wl, tilt=[tx, ty]) * p_flat, du, os_, shape)
    w_fit = prop(lentil.Wavefront(wl) * p_ramp.fit_tilt(), du, os_, shape)
    ref = w_ramp.field
    ok = True
    worst = 0.0
    for other in (w_tilt, w_wft, w_fit):
        # compare on the window the tilted representations evaluate
        win = np.zeros(ref.shape, bool)
        for fld in other.data:
            tmp = np.zeros(ref.shape, complex)
            lentil.field.insert(lentil.field.Field(np.ones(fld.shape), offset=fld.offset), tmp)
            win |= tmp != 0
        err = float(np.max(np.abs((other.field - ref)[win]))) / float(np.max(np.abs(ref)))
        worst = max(worst, err)
        ok = ok and err < 1e-9
    # direction and size of the displacement: the peak moves by focal_length*angle/du*oversample samples,
    # +rows for a positive x tilt, -columns for a positive y tilt
    I = np.abs(ref) ** 2
    pk = np.unravel_index(np.argmax(I), I.shape)
    I0 = np.abs(prop(lentil.Wavefront(wl) * p_flat, du, os_, shape).field) ** 2
    pk0 = np.unravel_index(np.argmax(I0), I0.shape)
    want = (f * tx / du[0] * os_, -f * ty / du[1] * os_)
    moved = (pk[0] - pk0[0], pk[1] - pk0[1])
    ok = ok and abs(moved[0] - want[0]) <= 1.0 and abs(moved[1] - want[1]) <= 1.0
    a.check(ok, {'tx': tx, 'ty': ty, 'du': du, 'os': os_, 'rel_err': worst, 'moved': moved, 'want': want})

b = Bounded('plane.Plane.fit_tilt::least_squares_tilt_removed', '%d random cases, monolithic and 2-3 segment masks, per-axis pupil sampling' % (6 if tier == 'quick' else 20),
            'fit_tilt removes exactly the least-squares tip/tilt per segment (not the piston), records the removed angles, and a second fit after an OPD update adds to them')
for case in range(6 if tier == 'quick' else 20):
    nseg = int(rng.integers(1, 4))
    masks = []
    for k in range(nseg):
        masks.append(lentil.circle((n, n), 4, shift=(int(rng.integers(-6, 7)), -10 + 10 * k), antialias=False))
    mask = np.array(masks) if nseg > 1 else masks[0]
    ps = (1e-3, float(rng.choice([1e-3, 2e-3])))
    r, c = lentil.helper.mesh((n, n))
    opd = np.zeros((n, n))
    truth = []
    for k in range(nseg):
        mk = masks[k]
        t = rng.uniform(-2e-6, 2e-6, size=2)
        pist = rng.uniform(-1e-7, 1e-7)
        opd += (pist + t[0] * r * ps[0] - t[1] * c * ps[1] + 1e-8 * (r * r + c * c) / n) * mk
        truth.append(t)
    p = lentil.Pupil(amplitude=mask.sum(axis=0) if nseg > 1 else mask, opd=opd, mask=mask, pixelscale=ps, focal_length=3.0)
    q = p.fit_tilt()
    ok = len(q.tilt) == nseg and not np.shares_memory(q.opd, p.opd) and np.array_equal(p.opd, opd)
    for k in range(nseg):
        mk = masks[k] > 0
        A = np.stack([np.ones(mk.sum()), (r * ps[0])[mk], (-c * ps[1])[mk]], axis=1)
        sol = np.linalg.lstsq(A, opd[mk], rcond=None)[0]
        res = np.linalg.lstsq(A, q.opd[mk], rcond=None)[0]
        tl = q.tilt[k]
        ok = ok and abs(res[1]) < 1e-12 and abs(res[2]) < 1e-12 and abs(res[0] - sol[0]) < 1e-12
        ok = ok and abs(tl.y - sol[1]) < 1e-12 and abs(tl.x - sol[2]) < 1e-12       # Tilt stores (x, y) swapped
        back = q.opd[mk] + sol[1] * (r * ps[0])[mk] + sol[2] * (-c * ps[1])[mk]
        ok = ok and np.max(np.abs(back - opd[mk])) < 1e-13
    # history: update the OPD and fit again in place - both fits must stay recorded per segment
    q.opd = q.opd + sum(1e-6 * (k + 1) * r * ps[0] * masks[k] for k in range(nseg))
    q.fit_tilt(inplace=True)
    ok = ok and len(q.tilt) == 2 * nseg
    b.check(ok, {'nseg': nseg, 'pixelscale': ps})
d_ = Bounded('plane.DispersiveTilt::on_the_trace_at_the_arc_length', 'quadratic and cubic traces, linear dispersion, wavelengths on both sides of the reference (negative and positive distances along the trace)',
             'the dispersive displacement lies on the trace polynomial at the signed arc length the dispersion polynomial maps to the wavelength')
for trace, disp in (([0.8, 0.3, 0.1], [2e-9 / 1e-3, 600e-9]), ([0.5, -0.4, 0.2, 0.0], [1e-9 / 1e-3, 500e-9]), ([2.0, 0.0, 0.05], [-3e-9 / 1e-3, 700e-9])):
    for wl in (disp[1] - 40e-9, disp[1] - 5e-9, disp[1], disp[1] + 12e-9, disp[1] + 60e-9):
        with d_.case({'trace': trace, 'dispersion': disp, 'wavelength': wl}):
            t = lentil.DispersiveTilt(trace=trace, dispersion=disp)
            x, y = t.shift(wavelength=wl, xs=0.0, ys=0.0)
            x, y = float(np.ravel(x)[0]), float(np.ravel(y)[0])
            dist = (wl - disp[1]) / disp[0]                       # signed distance along the trace
            xs_ = np.linspace(0.0, x, 20001)
            arc = np.trapz(np.sqrt(1 + np.polyval(np.polyder(trace), xs_) ** 2), xs_)       # signed: x < 0 gives a negative arc
            d_.check(bool(abs(y - np.polyval(trace, x)) < 1e-12 and abs(arc - dist) < 1e-6 * max(1e-3, abs(dist))),
                     {'trace': trace, 'wavelength': wl, 'x': x, 'arc': float(arc), 'distance': float(dist)})
# the dispersive element is metadata like any other tilt: a wavefront that carries it must propagate, and to the
# same field as with the plain Tilt plane that produces the same displacement
for trace, disp in (([1.0, 0.0], [1e-3, 600e-9]), ([0.2, 1.0, 0.0], [1e-3, 600e-9]), ([1.0, 0.0], [1e-2, 1e-3, 600e-9])):
    with d_.case({'propagated': True, 'trace': trace, 'dispersion': disp}):
        wl, zf = 650e-9, 10.0
        pup = lentil.Pupil(amplitude=lentil.circle((48, 48), 15), focal_length=zf, pixelscale=1e-3)
        t = lentil.DispersiveTilt(trace=trace, dispersion=disp)
        dx, dy = t.shift(wavelength=wl, xs=0.0, ys=0.0)
        dx, dy = float(np.ravel(dx)[0]), float(np.ravel(dy)[0])
        f1 = lentil.propagate_dft(lentil.Wavefront(wl) * pup * t, pixelscale=5e-6, shape=40, oversample=2).field
        f2 = lentil.propagate_dft(lentil.Wavefront(wl) * pup * lentil.Tilt(x=-dy / zf, y=-dx / zf), pixelscale=5e-6, shape=40, oversample=2).field
        d_.check(bool(f1.shape == f2.shape and np.allclose(f1, f2, atol=1e-9 * np.abs(f2).max())), {'propagated': True, 'trace': trace, 'dispersion': disp})

emit([a, b, d_])
