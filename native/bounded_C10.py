import copy
import itertools
import sys

import numpy as np
import lentil
from lentil.radiometry import Spectrum
from common import Bounded, emit

tier, seed = sys.argv[1], int(sys.argv[2])
rng = np.random.default_rng(seed)


def frozen(a):
    a = np.array(a)
    a.setflags(write=False)
    return a


a = Bounded('C10::no_hidden_mutation', 'public constructors / multiply / propagate / fit_tilt / rescale / detector / convolution / Fourier functions called with read-only, snapshotted caller arrays',
            'no call writes to a caller-supplied array or object unless documented as in-place')
n = 24
amp = frozen(lentil.circle((n, n), 8))
opd = frozen(rng.normal(scale=3e-8, size=(n, n)))
mask = frozen((np.asarray(amp) > 0).astype(float))
snap = lambda *xs: [np.array(x, copy=True) for x in xs]
keep = snap(amp, opd, mask)


def unchanged():
    return all(np.array_equal(x, y) for x, y in zip((amp, opd, mask), keep))


with a.case({'call': 'Pupil(...)'}):
    p = lentil.Pupil(amplitude=amp, opd=opd, mask=mask, pixelscale=1e-3, focal_length=3.0)
    a.check(unchanged(), {'call': 'Pupil(...)'})
with a.case({'call': 'multiply/propagate'}):
    w = lentil.Wavefront(600e-9)
    w1 = w * p
    st = copy.deepcopy((w1.data[0].data, w1.data[0].offset, list(w1.data[0].tilt)))
    o1 = lentil.propagate_dft(w1, pixelscale=5e-6, shape=16, oversample=2)
    o2 = lentil.propagate_dft(w1, pixelscale=5e-6, shape=16, oversample=2)
    a.check(unchanged() and np.array_equal(o1.field, o2.field) and np.array_equal(w1.data[0].data, st[0]) and len(w1.data[0].tilt) == len(st[2]),
            {'call': 'propagate_dft twice'})
    t = lentil.Tilt(x=1e-6, y=-2e-6)
    w2 = w1 * t
    w3 = w1 * t
    a.check(len(w1.data[0].tilt) == 0 and len(w2.data[0].tilt) == 1 and len(w3.data[0].tilt) == 1, {'call': 'w * Tilt twice'})
with a.case({'call': 'fit_tilt'}):
    p2 = lentil.Pupil(amplitude=np.array(amp), opd=np.array(opd) + 1e-6 * lentil.helper.mesh((n, n))[0] * 1e-3 * np.asarray(mask), mask=np.array(mask), pixelscale=1e-3, focal_length=3.0)
    before = p2.opd.copy()
    q = p2.fit_tilt()
    a.check(np.array_equal(p2.opd, before) and len(p2.tilt) == 0 and len(q.tilt) == 1, {'call': 'fit_tilt(inplace=False)'})
    r1 = lentil.propagate_dft(lentil.Wavefront(600e-9) * q, pixelscale=5e-6, shape=16, oversample=2).field
    r2 = lentil.propagate_dft(lentil.Wavefront(600e-9) * p2.fit_tilt(), pixelscale=5e-6, shape=16, oversample=2).field
    a.check(np.array_equal(r1, r2), {'call': 'fit_tilt repeated'})
with a.case({'call': 'rescale'}):
    q = p.rescale(1.5)
    a.check(unchanged() and q is not p, {'call': 'rescale'})
with a.case({'call': 'detector'}):
    frame = frozen(rng.uniform(0, 300, size=(6, 7)))
    fk = np.array(frame)
    lentil.detector.adc(frame, [0.001, 1.0], saturation_capacity=200, warn_saturate=False)
    lentil.detector.shot_noise(frame, seed=1)
    lentil.detector.read_noise(frame, 3, seed=1)
    lentil.detector.pixel(frame, 2)
    lentil.jitter(frame, 0.5)
    lentil.smear(frame, 1.5, angle=30)
    cube = frozen(rng.uniform(0, 9, size=(2, 4, 4)))
    ck = np.array(cube)
    lentil.detector.collect_charge(cube, [500, 600], [0.4, 0.5])
    lentil.detector.collect_charge_bayer(cube, [500, 600], [0.4, 0.5], [0.3, 0.2], [0.1, 0.9], 'RGGB', oversample=2)
    a.check(np.array_equal(frame, fk) and np.array_equal(cube, ck), {'call': 'detector functions'})
with a.case({'call': 'fourier'}):
    f = frozen(rng.normal(size=(5, 6)) + 1j * rng.normal(size=(5, 6)))
    fk = np.array(f)
    out = np.zeros((4, 7), complex)
    F1 = lentil.fourier.dft2(f, (0.2, 0.15), shape=(4, 7), shift=(0.5, -1), offset=(2, -1))
    F2 = lentil.fourier.dft2(f, (0.2, 0.15), shape=(4, 7), shift=(0.5, -1), offset=(2, -1), out=out)
    F3 = lentil.fourier.dft2(f, (0.2, 0.15), shape=(4, 7))
    F4 = lentil.fourier.dft2(f, (0.2, 0.15), shape=(4, 7), shift=(0.5, -1), offset=(2, -1))
    a.check(np.array_equal(f, fk) and np.array_equal(F1, F2) and np.array_equal(F1, F4) and F2 is out, {'call': 'dft2 repeated shapes'})
with a.case({'call': 'spectrum arithmetic'}):
    s1 = Spectrum(np.linspace(0.4, 0.7, 7), np.linspace(1, 2, 7), 'um')
    s2 = Spectrum(np.linspace(500, 900, 9), np.linspace(3, 1, 9), 'nm')
    k1, k2 = (s1.wave.copy(), s1.value.copy(), s1.waveunit), (s2.wave.copy(), s2.value.copy(), s2.waveunit)
    r = s1 * s2
    phys = lambda s: s.wave * {'um': 1e-6, 'nm': 1e-9}[s.waveunit]
    a.check(np.allclose(phys(s1), k1[0] * 1e-6) and np.allclose(phys(s2), k2[0] * 1e-9) and np.array_equal(s1.value, k1[1]) and np.array_equal(s2.value, k2[1]) and r is not s1,
            {'call': 'Spectrum * Spectrum'})

h = Bounded('C10::history_independence', '30 random interleavings of attribute updates, tilt fits and propagations on shared objects',
            'a result depends only on the current arguments: the same plane state reached through different histories gives the same field')
for t in range(10 if tier == 'quick' else 30):
    with h.case({'history': t}):
        r_, c_ = lentil.helper.mesh((n, n))
        m = (np.asarray(amp) > 0).astype(float)
        o1 = rng.normal(scale=2e-8, size=(n, n)) * m
        ramp = (rng.uniform(-2e-6, 2e-6) * r_ * 1e-3 - rng.uniform(-2e-6, 2e-6) * c_ * 1e-3) * m
        # history A: fit, then add a second ramp, fit again; history B: fresh plane with the total OPD, one fit
        pa = lentil.Pupil(amplitude=np.array(amp), opd=o1 + ramp, mask=m.copy(), pixelscale=1e-3, focal_length=3.0)
        pa.fit_tilt(inplace=True)
        ramp2 = (rng.uniform(-2e-6, 2e-6) * r_ * 1e-3) * m
        pa.opd = pa.opd + ramp2
        pa.fit_tilt(inplace=True)
        pb = lentil.Pupil(amplitude=np.array(amp), opd=o1 + ramp + ramp2, mask=m.copy(), pixelscale=1e-3, focal_length=3.0)
        fa = lentil.propagate_dft(lentil.Wavefront(600e-9) * pa, pixelscale=5e-6, shape=20, oversample=2)
        lentil.fourier.dft2(rng.normal(size=(n, n)), 0.01, shape=20, offset=(3, -2))       # unrelated call in between
        fb = lentil.propagate_dft(lentil.Wavefront(600e-9) * pb, pixelscale=5e-6, shape=20, oversample=2)
        win = np.zeros(fb.field.shape, bool)
        for fld in fa.data:
            tmp = np.zeros(fb.field.shape, complex)
            lentil.field.insert(lentil.field.Field(np.ones(fld.shape), offset=fld.offset), tmp)
            win |= tmp != 0
        err = float(np.max(np.abs((fa.field - fb.field)[win]))) / float(np.max(np.abs(fb.field)))
        h.check(err < 1e-9, {'history': t, 'rel_err': err})
emit([a, h])
