"""Shared helpers for the bounded native stand-ins (run under /venv/bin/python, PYTHONPATH=/repo).
A stand-in enumerates or samples inputs up to a stated bound and checks the same clause natively;
its results are reported under coverage.bounded and never counted as discharged obligations."""
import json
import sys
import time


_ALL = []


def _uncaught(et, ev, tb):
    """An exception that escapes a stand-in outside a case() block: when it passes through the code under
    test (a frame inside the lentil package) it is a failing input of the stand-in that was running - on the
    unchanged tree the stand-ins run to completion, so the code under test now refuses, or crashes on, an input
    it handled.  Anything else is a crash of the stand-in itself (exit status non-zero -> checker error)."""
    import traceback
    frames = traceback.extract_tb(tb)
    through = [f for f in frames if '/lentil/' in f.filename.replace('\\', '/')]
    if not _ALL or not through or not issubclass(et, Exception):
        sys.__excepthook__(et, ev, tb)
        sys.exit(1)
    b = _ALL[-1]
    b.check(False, {'exception': ('%s: %s' % (et.__name__, ev))[:300], 'raised_in': '%s:%d' % (through[-1].filename, through[-1].lineno),
                    'stand_in_line': next((f.lineno for f in reversed(frames) if f.filename.endswith('.py') and '/native/' in f.filename), None),
                    'note': 'uncaught exception from the code under test; later cases of this stand-in were not run'})
    emit(list(_ALL))
    sys.stdout.flush()
    import os
    os._exit(0)


sys.excepthook = _uncaught


class Bounded:
    def __init__(self, name, bound, clause):
        _ALL.append(self)
        self.name = name
        self.bound = bound
        self.clause = clause
        self.cases = 0
        self.violations = 0
        self.first = None
        self.known = {}
        self.t0 = time.time()

    def check(self, ok, witness, known=None):
        """known: name of a witness predicate (known_findings.json) that this failing case satisfies."""
        self.cases += 1
        if not ok:
            if known:
                k = self.known.setdefault(known, {'cases': 0, 'first': witness})
                k['cases'] += 1
                return
            self.violations += 1
            if self.first is None:
                self.first = witness

    def case(self, witness):
        """with b.case({...}): body  - an exception raised by the code under test counts as a violation."""
        outer = self

        class _Case:
            def __enter__(self_):
                return self_

            def __exit__(self_, et, ev, tb):
                if et is not None and issubclass(et, Exception):
                    outer.check(False, dict(witness, exception=('%s: %s' % (et.__name__, ev))[:200]))
                    return True
                return False
        return _Case()

    def result(self):
        return {'name': self.name, 'bound': self.bound, 'clause': self.clause, 'cases': self.cases,
                'violations': self.violations, 'first_violation': self.first, 'known_by_witness': self.known,
                'time_s': round(time.time() - self.t0, 2)}


def emit(results):
    json.dump([r.result() if isinstance(r, Bounded) else r for r in results], sys.stdout, default=str)
