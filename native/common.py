"""Shared helpers for the bounded native stand-ins (run under /venv/bin/python, PYTHONPATH=/repo).
A stand-in enumerates or samples inputs up to a stated bound and checks the same clause natively;
its results are reported under coverage.bounded and never counted as discharged obligations."""
import json
import sys
import time


class Bounded:
    def __init__(self, name, bound, clause):
        self.name = name
        self.bound = bound
        self.clause = clause
        self.cases = 0
        self.violations = 0
        self.first = None
        self.known = {}
        self.t0 = time.time()

    def check(self, ok, witness, known=None):
        """known: name of a witness predicate (known_findings.json) that this failing case satisfies."""
        self.cases += 1
        if not ok:
            if known:
                k = self.known.setdefault(known, {'cases': 0, 'first': witness})
                k['cases'] += 1
                return
            self.violations += 1
            if self.first is None:
                self.first = witness

    def case(self, witness):
        """with b.case({...}): body  - an exception raised by the code under test counts as a violation."""
        outer = self

        class _Case:
            def __enter__(self_):
                return self_

            def __exit__(self_, et, ev, tb):
                if et is not None and issubclass(et, Exception):
                    outer.check(False, dict(witness, exception=('%s: %s' % (et.__name__, ev))[:200]))
                    return True
                return False
        return _Case()

    def result(self):
        return {'name': self.name, 'bound': self.bound, 'clause': self.clause, 'cases': self.cases,
                'violations': self.violations, 'first_violation': self.first, 'known_by_witness': self.known,
                'time_s': round(time.time() - self.t0, 2)}


def emit(results):
    json.dump([r.result() if isinstance(r, Bounded) else r for r in results], sys.stdout, default=str)
