import itertools
import sys

import numpy as np
import lentil
import lentil.zernike as Z
from common import Bounded, emit

zmod = sys.modules['lentil.zernike']
tier, seed = sys.argv[1], int(sys.argv[2])
rng = np.random.default_rng(seed)


def noll_enumerate(jmax):
    """Independent integer-only enumeration of Noll's ordering."""
    out = {}
    j = 1
    n = 0
    while j <= jmax:
        ms = [m for m in range(-n, n + 1) if (n - abs(m)) % 2 == 0]
        ms.sort(key=lambda m: (abs(m)))
        # within a row: increasing |m|; for each |m| > 0 the even j gets cos (m > 0), the odd j sin (m < 0)
        absms = sorted(set(abs(m) for m in ms))
        for am in absms:
            if am == 0:
                out[j] = (0, n)
                j += 1
            else:
                pair = [j, j + 1]
                for jj in pair:
                    out[jj] = (am if jj % 2 == 0 else -am, n)
                j += 2
        n += 1
    return out


jmax = 20000 if tier == 'quick' else 1000000
a = Bounded('zernike.zernike_index::noll_table', 'every j <= %d against an integer-only enumerator (covers float sqrt rounding)' % jmax,
            'Noll index maps to (m, n) of Noll ordering')
ref = noll_enumerate(jmax)
step = 1 if tier != 'quick' else 1
for j in range(1, jmax + 1, step):
    a.check(tuple(zmod.zernike_index(j)) == ref[j], {'j': j, 'got': zmod.zernike_index(j), 'want': ref[j]})

# orthonormality by exact quadrature on the unit disk (Gauss-Legendre in rho^2, uniform in theta)
b = Bounded('zernike.zernike::orthonormal_over_the_disk', 'modes 1..%d, Gauss-Legendre(40) x 128 angles' % (28 if tier == 'quick' else 66),
            'normalised modes: Gram matrix = identity; unnormalised: |Z| <= 1; radial polynomial is 1 at rho = 1')
nm = 28 if tier == 'quick' else 66
x, wq = np.polynomial.legendre.leggauss(40)
t = (x + 1) / 2
rho = np.sqrt(t)[:, None] * np.ones(128)[None, :]
theta = np.ones(40)[:, None] * (2 * np.pi * np.arange(128) / 128)[None, :]
W = (wq / 2)[:, None] * np.ones(128)[None, :] / 128
mask = np.ones(rho.shape)
modes = np.array([lentil.zernike(mask, j, rho=rho, theta=theta) for j in range(1, nm + 1)])
G = np.einsum('iab,jab,ab->ij', modes, modes, W)
b.check(np.max(np.abs(G - np.eye(nm))) < 1e-10, {'max_gram_error': float(np.max(np.abs(G - np.eye(nm))))})
un = np.array([lentil.zernike(mask, j, normalize=False, rho=rho, theta=theta) for j in range(1, nm + 1)])
b.check(np.max(np.abs(un)) <= 1 + 1e-12, {'max_abs_unnormalised': float(np.max(np.abs(un)))})
for j in range(1, nm + 1):
    m, n = zmod.zernike_index(j)
    r1 = zmod.R(m, n, np.ones((1, 1)))
    b.check(abs(float(np.asarray(r1).ravel()[0]) - 1) < 1e-12 if not np.isscalar(r1) or r1 != 0 else False, {'j': j, 'R(1)': str(r1)})

import math
for (n_, m_) in ((20, 0), (21, 1), (22, 2), (24, 0), (25, 5), (30, 4)):
    # radial polynomial of a high order against exact (Python integer) factorials, evaluated in exact rationals
    from fractions import Fraction
    with b.case({'high_order': (n_, m_)}):
        pts = [Fraction(1), Fraction(1, 2), Fraction(9, 10)]
        want = [float(sum(Fraction((-1) ** k * math.factorial(n_ - k), math.factorial(k) * math.factorial((n_ + m_) // 2 - k) * math.factorial((n_ - m_) // 2 - k)) * r ** (n_ - 2 * k)
                          for k in range((n_ - m_) // 2 + 1))) for r in pts]
        got = np.asarray(zmod.R(m_, n_, np.array([[float(r) for r in pts]]))).ravel()
        # (loose tolerance: the alternating sum loses digits in double precision at these orders)
        b.check(bool(np.allclose(got, want, rtol=1e-3, atol=1e-3)), {'high_order': (n_, m_), 'got': got.tolist(), 'expected': want})

c = Bounded('zernike.zernike_coordinates::centroid_origin', 'circular / D-shaped / L-shaped masks on 9x9 ... 16x13 arrays of every parity, off-centre',
            'default origin is the mask centroid for every parity and position; rho = 1 at the farthest masked sample; zero outside the mask; support-only dependence')
for shape in ((9, 9), (10, 10), (9, 12), (16, 13), (11, 8)):
    for kind in ('disk', 'D', 'L'):
        sh = (int(rng.integers(-1, 2)), int(rng.integers(-1, 2)))
        m = lentil.circle(shape, min(shape) // 3, shift=sh, antialias=False) > 0
        if kind == 'D':
            m[:, : shape[1] // 2] = False
        if kind == 'L':
            m = np.zeros(shape, bool)
            m[1:-2, 1] = True
            m[-3, 1:-2] = True
        if m.sum() < 2:
            continue
        rho_, th_ = lentil.zernike_coordinates(m)
        ii, jj = np.indices(shape)
        cr, cc = (ii * m).sum() / m.sum(), (jj * m).sum() / m.sum()
        d = np.sqrt((ii - cr) ** 2 + (jj - cc) ** 2)
        ok = np.allclose(rho_, d / d[m].max(), atol=1e-12)
        z4 = lentil.zernike(m, 4)
        z4b = lentil.zernike(m * 3.5, 4)
        ok = ok and np.all(z4[~m] == 0) and np.allclose(z4, z4b)
        c.check(ok, {'shape': shape, 'kind': kind})
emit([a, b, c])
