import itertools
import sys
import warnings

import numpy as np
import lentil
from lentil.radiometry import Spectrum
from common import Bounded, emit

tier, seed = sys.argv[1], int(sys.argv[2])
rng = np.random.default_rng(seed)

a = Bounded('detector.qe_asarray::representations', 'scalar / vector / Spectrum QE in nm, um, angstrom; cubes 1..4 wavelengths',
            'collected charge is the same whether the efficiency is a scalar, a vector or a spectrum sampled in any wavelength unit')
for L in (1, 2, 4):
    img = rng.uniform(0, 50, size=(L, 4, 5))
    wave_nm = np.linspace(450, 650, L) if L > 1 else np.array([500.0])
    qv = rng.uniform(0.2, 0.9, size=L)
    ref = np.einsum('ijk,i->jk', img, qv)
    a.check(np.allclose(lentil.detector.collect_charge(img, wave_nm, qv), ref), {'L': L, 'form': 'vector'})
    a.check(np.allclose(lentil.detector.collect_charge(img, wave_nm, 0.5), 0.5 * img.sum(axis=0)), {'L': L, 'form': 'scalar'})
    grid_nm = np.linspace(400, 700, 31)
    curve = 0.3 + 0.5 * (grid_nm - 400) / 300
    want = np.einsum('ijk,i->jk', img, np.interp(wave_nm, grid_nm, curve))
    for unit, f in (('nm', 1.0), ('um', 1e-3), ('angstrom', 10.0)):
        for cube_unit, g in (('nm', 1.0), ('um', 1e-3)):
            sp = Spectrum(grid_nm * f, curve, unit)
            got = lentil.detector.collect_charge(img, wave_nm * g, sp, waveunit=cube_unit)
            a.check(np.allclose(got, want, rtol=1e-9), {'L': L, 'spectrum_unit': unit, 'cube_unit': cube_unit})
        # the documented default for the cube wavelengths is nanometres, whatever unit the QE spectrum is tabulated in
        with a.case({'L': L, 'spectrum_unit': unit, 'cube_unit': 'default'}):
            sp = Spectrum(grid_nm * f, curve, unit)
            got = lentil.detector.collect_charge(img, wave_nm, sp)
            a.check(bool(np.allclose(got, want, rtol=1e-9)), {'L': L, 'spectrum_unit': unit, 'cube_unit': 'default (nm)'})

    # one spectrum object used again: a second exposure in another unit, back in the first, and the same object for
    # all three colour channels must keep giving the charge of the same efficiency curve
    with a.case({'L': L, 'form': 'same spectrum object reused'}):
        sp = Spectrum(grid_nm.copy(), curve.copy(), 'nm')
        for cube_unit, g in (('um', 1e-3), ('um', 1e-3), ('nm', 1.0), ('angstrom', 10.0), ('nm', 1.0)):
            got = lentil.detector.collect_charge(img, wave_nm * g, sp, waveunit=cube_unit)
            a.check(bool(np.allclose(got, want, rtol=1e-9)), {'L': L, 'reused_spectrum_call_in': cube_unit})
        sp = Spectrum(grid_nm.copy(), curve.copy(), 'nm')
        pimg = rng.uniform(0, 50, size=(L, 4, 4))
        got = lentil.detector.collect_charge_bayer(pimg, wave_nm * 1e-3, sp, sp, sp, 'RGGB', waveunit='um')
        a.check(bool(np.allclose(got, np.einsum('ijk,i->jk', pimg, np.interp(wave_nm, grid_nm, curve)), rtol=1e-9)),
                {'L': L, 'same_spectrum_for_all_channels': 'um'})

b = Bounded('detector.collect_charge_bayer::reference_selection', 'patterns RGGB GRBG BGGR RGBGBRBRG, oversample 1..5, 2 image sizes each; random per-channel QE vectors',
            'every sub-pixel uses the QE of the colour of its native pixel; equal QE reproduces collect_charge; channels sum to the flattened image')
for pat, os_ in itertools.product(('RGGB', 'GRBG', 'BGGR', 'RGBGBRBRG'), range(1, 6)):
    p = int(round(len(pat) ** 0.5))
    for (nr, nc) in ((p, 2 * p), (3 * p, p)):
        img = rng.uniform(0, 9, size=(2, nr * os_, nc * os_))
        q = {k: rng.uniform(0.1, 0.9, size=2) for k in 'RGB'}
        out = lentil.detector.collect_charge_bayer(img, [500, 600], q['R'], q['G'], q['B'], pat, oversample=os_)
        ch = lentil.detector.collect_charge_bayer(img, [500, 600], q['R'], q['G'], q['B'], pat, oversample=os_, flatten=False)
        P = np.array(list(pat)).reshape(p, p)
        rr, cc = np.indices((nr * os_, nc * os_))
        col = P[(rr // os_) % p, (cc // os_) % p]
        ref = sum(np.where(col == k, np.einsum('ijk,i->jk', img, q[k]), 0) for k in 'RGB')
        same = lentil.detector.collect_charge_bayer(img, [500, 600], q['R'], q['R'], q['R'], pat, oversample=os_)
        ok = np.allclose(out, ref) and np.allclose(sum(ch), out) and np.allclose(same, lentil.detector.collect_charge(img, [500, 600], q['R']))
        b.check(ok, {'pattern': pat, 'oversample': os_, 'native': (nr, nc)})

c = Bounded('detector.adc::reference', '60 random frames incl. negatives and saturated pixels, four gain forms, orders 1..3, dtypes',
            'floor of the gain polynomial at the clipped count, never negative, monotone for increasing non-negative gains, requested dtype, warning iff saturated, input untouched')
for t in range(60):
    R, C = int(rng.integers(1, 5)), int(rng.integers(1, 5))
    img = rng.integers(-50, 400, size=(R, C)).astype(float)
    keep = img.copy()
    K = int(rng.integers(1, 4))
    form = t % 4
    cap = float(rng.choice([0, 150, 300]))
    if form == 0:
        gain = float(rng.integers(1, 9)) / 8
        coeffs = np.full((1, R, C), gain)
    elif form == 1:
        gain = rng.integers(0, 9, size=K) / 8
        coeffs = gain[:, None, None] * np.ones((K, R, C))
    elif form == 2:
        gain = rng.integers(0, 9, size=(R, C)) / 8
        coeffs = gain[None]
    else:
        gain = rng.integers(0, 9, size=(K, R, C)) / 8
        coeffs = gain
    Kc = coeffs.shape[0]
    e = np.minimum(img, cap) if cap else img
    ref = np.maximum(np.floor(sum(coeffs[d] * e ** (Kc - d) for d in range(Kc))), 0)
    with warnings.catch_warnings(record=True) as wl:
        warnings.simplefilter('always')
        out = lentil.detector.adc(img, gain, saturation_capacity=cap if cap else None, warn_saturate=True, dtype=np.int64)
    warned = any('saturated' in str(w.message) for w in wl)
    ok = np.array_equal(out, ref) and out.dtype == np.int64 and np.array_equal(img, keep)
    ok = ok and (warned == bool(cap and np.any(img > cap)))
    # monotone for increasing non-negative gain curves on non-negative input
    e2 = np.sort(np.abs(img).ravel()).reshape(1, -1)
    o2 = lentil.detector.adc(e2, np.abs(np.atleast_1d(gain)).ravel()[:1] if form in (0,) else np.abs(coeffs[:, 0, 0]), saturation_capacity=cap if cap else None)
    ok = ok and np.all(np.diff(o2.ravel()) >= 0)
    c.check(ok, {'form': form, 'K': K, 'cap': cap})
for dt in (np.uint8, np.uint16, np.uint32, np.int16, np.int32, np.float32, np.float64):
    with c.case({'dtype': str(np.dtype(dt))}):
        img = np.array([[-3.0, -0.4, 0.0, 0.6], [1.0, 7.9, 12.2, 14.0]])      # every expected value fits uint8
        for gain in (1.0, 0.5, np.array([0.25, 1.0])):
            Kc = np.atleast_1d(gain).size
            co = np.atleast_1d(gain)
            ref = np.maximum(np.floor(sum(co[d_] * img ** (Kc - d_) for d_ in range(Kc))), 0)
            out = lentil.detector.adc(img, gain, dtype=dt)
            c.check(bool(out.dtype == np.dtype(dt) and np.array_equal(out.astype(float), ref)),
                    {'dtype': str(np.dtype(dt)), 'gain': np.atleast_1d(gain).tolist(), 'got': out.ravel().tolist()[:4], 'expected': ref.ravel().tolist()[:4]})
emit([a, b, c])
