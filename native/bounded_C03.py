import itertools
import sys

import numpy as np
import lentil
from common import Bounded, emit

tier, seed = sys.argv[1], int(sys.argv[2])
rng = np.random.default_rng(seed)


def random_partition(support, k, rng):
    """Split the support of a mask into k interleaved pieces (bounding boxes overlap)."""
    lab = rng.integers(0, k, size=support.shape)
    # make pieces blobby: label by a random linear functional, so boxes still overlap
    r, c = np.indices(support.shape)
    t = (r * rng.uniform(-1, 1) + c * rng.uniform(-1, 1))
    order = np.argsort(np.argsort(t[support]))
    lab2 = np.zeros(support.shape, int)
    lab2[support] = (order * k // max(1, support.sum())) % k
    mix = rng.uniform() < 0.5
    lab = lab if mix else lab2
    return np.array([(support & (lab == i)).astype(float) for i in range(k)])


b = Bounded('C03::segmented_equals_monolithic', '%d random cases: apertures 24x28 / 25x25, partitions into 1..4 segments (interleaved and blocky, overlapping boxes), one or two masked planes, prop windows, oversample 1..2' % (8 if tier == 'quick' else 40),
            'field and intensity after a plane chain and a propagation are the same for one global mask and for any partition into segment masks; overlapping contributions add coherently')
for case in range(8 if tier == 'quick' else 40):
    shape = (24, 28) if case % 2 else (25, 25)
    amp = lentil.circle(shape, 9, shift=(int(rng.integers(-2, 3)), int(rng.integers(-2, 3))), antialias=False)
    support = amp > 0
    k = int(rng.integers(1, 5))
    segs = random_partition(support, k, rng)
    segs = np.array([s for s in segs if s.sum() > 1])
    if len(segs) == 0:
        continue
    opd = rng.normal(scale=4e-8, size=shape)
    wl, f, dx, du = 600e-9, 4.0, 1e-3, (5e-6, 6e-6)
    os_ = int(rng.integers(1, 3))
    mono = lentil.Pupil(amplitude=amp, opd=opd, mask=support.astype(float), pixelscale=dx, focal_length=f)
    seg = lentil.Pupil(amplitude=amp, opd=opd, mask=segs if len(segs) > 1 else segs[0], pixelscale=dx, focal_length=f)
    w1, w2 = lentil.Wavefront(wl) * mono, lentil.Wavefront(wl) * seg
    if case % 3 == 0:
        # a second masked plane in the chain (rectangular stop), monolithic in both chains
        stop = lentil.rectangle(shape, 14, 12, shift=(1, -1), antialias=False)
        pl = lentil.Pupil(amplitude=stop, mask=stop, opd=rng.normal(scale=2e-8, size=shape), pixelscale=dx, focal_length=f)
        w1, w2 = w1 * pl, w2 * pl
    ok = np.max(np.abs(w1.field - w2.field)) < 1e-12
    shp = (20, 22)
    pshp = None if case % 4 else (10, 12)
    o1 = lentil.propagate_dft(w1, pixelscale=du, shape=shp, prop_shape=pshp, oversample=os_)
    o2 = lentil.propagate_dft(w2, pixelscale=du, shape=shp, prop_shape=pshp, oversample=os_)
    sc = float(np.max(np.abs(o1.field))) + 1e-30
    ef = float(np.max(np.abs(o1.field - o2.field))) / sc
    ei = float(np.max(np.abs(o1.intensity - o2.intensity))) / sc ** 2
    ec = float(np.max(np.abs(o2.intensity - np.abs(o2.field) ** 2))) / sc ** 2
    b.check(ok and ef < 1e-10 and ei < 1e-10 and ec < 1e-10,
            {'case': case, 'segments': len(segs), 'field_err': ef, 'intensity_err': ei, 'coherent_err': ec})
emit([b])
