import itertools
import sys

import numpy as np
import lentil
import lentil.segmented as seg
from common import Bounded, emit

tier, seed = sys.argv[1], int(sys.argv[2])
rng = np.random.default_rng(seed)
out = []

# rebin: out[I,J] = sum of the f x f block; total preserved (2-D and cubes)
b = Bounded('util.rebin::block_sums', 'all shapes (n f, m f) with n, m <= 5, f <= 4, cubes of depth <= 2; random integer data',
            'integer-factor rebinning sums each f x f block and preserves the total')
for n, m, f in itertools.product(range(1, 6), range(1, 6), range(1, 5)):
    img = rng.integers(-5, 9, size=(n * f, m * f)).astype(float)
    r = lentil.rebin(img, f)
    ref = np.array([[img[i * f:(i + 1) * f, j * f:(j + 1) * f].sum() for j in range(m)] for i in range(n)])
    b.check(r.shape == (n, m) and np.array_equal(r, ref) and r.sum() == img.sum(), {'shape': img.shape, 'factor': f})
    cube = rng.integers(-5, 9, size=(2, n * f, m * f)).astype(float)
    rc = lentil.rebin(cube, f)
    refc = np.array([[[cube[k, i * f:(i + 1) * f, j * f:(j + 1) * f].sum() for j in range(m)] for i in range(n)] for k in range(2)])
    b.check(rc.shape == (2, n, m) and np.array_equal(rc, refc), {'cube': cube.shape, 'factor': f})
out.append(b)

# centroid: sum(i * img) / sum(img)
b = Bounded('util.centroid::first_moment', 'all shapes <= 6 x 7, random positive data',
            'centroid is the intensity-weighted mean index (origin-free, consistent with index coordinates)')
for n, m in itertools.product(range(1, 7), range(1, 8)):
    img = rng.uniform(0.1, 1, size=(n, m))
    r, c = lentil.centroid(img)
    ii, jj = np.indices((n, m))
    b.check(abs(r - (ii * img).sum() / img.sum()) < 1e-12 and abs(c - (jj * img).sum() / img.sum()) < 1e-12, {'shape': (n, m)})
    # signed data with a total well away from zero: still first moment over the (signed) total
    sg = rng.uniform(-0.4, 1, size=(n, m))
    if abs(sg.sum()) > 0.2:
        r, c = lentil.centroid(sg)
        b.check(abs(r - (ii * sg).sum() / sg.sum()) < 1e-10 and abs(c - (jj * sg).sum() / sg.sum()) < 1e-10, {'shape': (n, m), 'signed': True})
out.append(b)

# pad then crop back is the identity (also proved from the pad model; native confirmation)
b = Bounded('util.pad::roundtrip', 'all 2-D shapes <= 5 x 5 padded to <= 8 x 8 and cubes of depth 2', 'padding then cropping back is the identity')
for n, m, N, M in itertools.product(range(1, 6), range(1, 6), range(1, 9), range(1, 9)):
    if N < n or M < m:
        continue
    a = rng.normal(size=(n, m))
    b.check(np.array_equal(lentil.pad(lentil.pad(a, (N, M)), (n, m)), a), {'shape': (n, m), 'to': (N, M)})
    cu = rng.normal(size=(2, n, m))
    b.check(np.array_equal(lentil.pad(lentil.pad(cu, (N, M)), (n, m)), cu), {'cube': (2, n, m), 'to': (N, M)})
out.append(b)

# hex_ring: 6 k distinct hexes at distance k; hex_segments: count, non-overlap, border
kmax = 6 if tier == 'quick' else 12
b = Bounded('segmented.hex_ring::count_distinct', 'ring radius 1..%d' % kmax, 'ring k holds 6k distinct cube coordinates at hex distance k')
for k in range(1, kmax + 1):
    ring = seg.hex_ring(k)
    ok = len(ring) == 6 * k and len(set(ring)) == 6 * k and all(h.q + h.r + h.s == 0 and max(abs(h.q), abs(h.r), abs(h.s)) == k for h in ring)
    b.check(ok, {'radius': k})
out.append(b)

rings_max = 2 if tier == 'quick' else 3
b = Bounded('segmented.hex_segments::count_overlap_border',
            'rings 1..%d, seg_radius in {6, 7.5, 9}, seg_gap in {0, 0.25, 0.5, 1, 2.5}, rotate in {False, True}, drop lists {(0,), (), (0, 3)}; non-antialiased' % rings_max,
            'k rings hold 1+3k(k+1) segments minus those dropped, mutually non-overlapping (gap > 0) and clear of the array border')
for rings, rad, gap, rot, drop in itertools.product(range(1, rings_max + 1), (6, 7.5, 9), (0, 0.25, 0.5, 1, 2.5), (False, True), ((0,), (), (0, 3))):
    m = lentil.hex_segments(rings, rad, gap, rotate=rot, antialias=False, drop=drop)
    want = 1 + 3 * rings * (rings + 1) - len([d for d in drop if d <= 3 * rings * (rings + 1)])
    tot = m.sum(axis=0)
    count_ok = m.shape[0] == want
    border_ok = tot[0].sum() == 0 and tot[-1].sum() == 0 and tot[:, 0].sum() == 0 and tot[:, -1].sum() == 0
    overlap_ok = tot.max() <= 1
    b.check(count_ok and border_ok, {'rings': rings, 'seg_radius': rad, 'seg_gap': gap, 'rotate': rot, 'drop': drop,
                                     'count': (m.shape[0], want), 'border_ok': bool(border_ok)})
    # overlap at gap 0 is a listed known finding (closed half-planes share lattice points on common edges)
    b.check(overlap_ok, {'rings': rings, 'seg_radius': rad, 'seg_gap': gap, 'rotate': rot, 'max_overlap': float(tot.max())},
            known=('seg_gap==0' if gap == 0 else None))
out.append(b)
emit(out)
