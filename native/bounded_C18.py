import itertools
import sys

import numpy as np
import lentil
from common import Bounded, emit

tier, seed0 = sys.argv[1], int(sys.argv[2])
rng = np.random.default_rng(seed0)
seeds = [0, 1, 7, 12345, 2 ** 40 + 3]

a = Bounded('C18::seed_reproducibility_and_isolation', 'seeds %s x shot/read/dark/rule07/power_spectrum, frames 5x7' % seeds,
            'seeded models are deterministic in (arguments, seed), differ between seeds, and leave the global NumPy random state untouched')
frame = rng.uniform(50, 500, size=(5, 7))
mask = lentil.rectangle((6, 8), 5, 4, antialias=False)
fns = {
    'shot_noise': lambda s: lentil.detector.shot_noise(frame, seed=s),
    'shot_noise_gauss': lambda s: lentil.detector.shot_noise(frame, method='gaussian', seed=s),
    'read_noise': lambda s: lentil.detector.read_noise(frame, 10, seed=s),
    'dark_current': lambda s: lentil.detector.dark_current(500, (5, 7), 0.2, seed=s),
    'rule07': lambda s: lentil.detector.rule07_dark_current(120, 5e-6, 18e-6, (5, 7), 0.2, seed=s),
    'power_spectrum': lambda s: lentil.power_spectrum(mask, 1 / 8, 1e-8, 5, 3, seed=s),
}
for name, f in fns.items():
    draws = []
    try:
        f(1)
    except Exception as e:
        a.check(False, {'fn': name, 'exception': repr(e)[:200]})
        continue
    for s in seeds:
        st = np.random.get_state()
        x1 = f(s)
        np.random.seed(99)
        x2 = f(s)
        np.random.set_state(st)
        same_state = all(np.array_equal(u, v) if isinstance(u, np.ndarray) else u == v for u, v in zip(st, np.random.get_state()))
        a.check(np.array_equal(x1, x2) and same_state, {'fn': name, 'seed': s})
        draws.append(x1)
    a.check(all(not np.array_equal(draws[i], draws[j]) for i in range(len(seeds)) for j in range(i)), {'fn': name, 'distinct_seeds': True})

b = Bounded('C18::support_and_moments', 'large frames (200x200), signal 40..4000 e-, read noise 1.5..30 e-',
            'shot noise non-negative integer with mean = variance = signal (3 sigma of the estimator); read noise zero mean / requested std also on integer frames; dark frame without FPN = floor(rate)')
for sig in (40.0, 400.0, 4000.0):
    x = lentil.detector.shot_noise(np.full((200, 200), sig), seed=3)
    n = x.size
    b.check(x.min() >= 0 and np.all(x == np.floor(x)) and abs(x.mean() - sig) < 4 * np.sqrt(sig / n) and abs(x.var() - sig) < 6 * sig * np.sqrt(2 / n),
            {'signal': sig, 'mean': float(x.mean()), 'var': float(x.var())})
    g = lentil.detector.shot_noise(np.full((200, 200), sig), method='gaussian', seed=3)
    b.check(abs(g.mean() - sig) < 1 + 4 * np.sqrt(sig / n) and abs(g.var() - sig) < 0.1 * sig, {'gaussian_signal': sig})
for el, dt in itertools.product((1.5, 3.0, 30.0), (float, np.int64)):
    base = np.full((200, 200), 1000, dtype=dt)
    y = lentil.detector.read_noise(base, el, seed=5) - 1000
    b.check(abs(y.mean()) < 4 * el / 200 and abs(y.std() - el) < 0.03 * el, {'electrons': el, 'dtype': str(dt), 'std': float(y.std())})
for sig in (3e9, 1e12, 1e15):
    # counts far beyond 32-bit integers are inside the documented range (up to ~9.2e18)
    for method in ('poisson', 'gaussian'):
        with b.case({'large_signal': sig, 'method': method}):
            x = lentil.detector.shot_noise(np.full((60, 60), sig), method=method, seed=11)
            b.check(bool(x.min() >= 0 and np.all(x == np.floor(x)) and abs(float(x.mean()) / sig - 1) < 6 / np.sqrt(sig * x.size) + 1e-12
                         and abs(float(np.var(x.astype(float))) / sig - 1) < 0.2),
                    {'large_signal': sig, 'method': method, 'min': float(x.min()), 'mean': float(x.mean())})
for bad in (-1.0, 1e19):
    try:
        lentil.detector.shot_noise(np.array([[1.0, bad]]), seed=1)
        b.check(False, {'rejects': bad})
    except ValueError:
        b.check(True, {'rejects': bad})
b.check(np.array_equal(lentil.detector.dark_current(12.7, (3, 5)), np.full((3, 5), 12.0)), {'dark_floor': True})

c = Bounded('wfe.power_spectrum::mask_and_rms', 'masks 6x8, 8x6, 9x9, 12x5 (rectangles, circles, L-shape), rms 1e-9..5e-8, 3 seeds',
            'surface-error map is zero outside its mask with exactly the requested RMS over it, for any aspect ratio')
for shape, s in itertools.product(((6, 8), (8, 6), (9, 9), (12, 5)), (0, 1, 2)):
    for kind in ('rect', 'circle'):
        m = lentil.rectangle(shape, shape[1] - 2, shape[0] - 2, antialias=False) if kind == 'rect' else lentil.circle(shape, min(shape) // 2 - 1, antialias=False)
        rms = float(rng.uniform(1e-9, 5e-8))
        with c.case({'shape': shape, 'kind': kind, 'seed': s}):
            o = lentil.power_spectrum(m, 1 / max(shape), rms, 5, 3, seed=s)
            inside = m > 0
            c.check(o.shape == tuple(shape) and np.all(o[~inside] == 0) and abs(np.sqrt((o[inside] ** 2).mean()) - rms) < 1e-9 * rms,
                    {'shape': shape, 'kind': kind, 'seed': s, 'rms': rms, 'got': float(np.sqrt((o[inside] ** 2).mean()))})

d = Bounded('detector.cosmic_rays::shape_nonneg_finite', '40 (quick: 30) global random states, frames 8x8, 6x11, 13x5, 24x8, 30x5, 5x30',
            'cosmic-ray frames have the requested shape and are non-negative and finite for every random state')
for t, shape in itertools.product(range(40 if tier != 'quick' else 30), ((8, 8), (6, 11), (13, 5), (24, 8), (30, 5), (5, 30))):
    st = np.random.get_state()
    np.random.seed(1000 + t)
    img = None
    try:
        with d.case({'state': t, 'shape': shape}):
            # a rate that puts about six rays on the patch per second of exposure
            img = lentil.detector.cosmic_rays(shape, (5e-6, 5e-6, 3e-6), 1.0, rate=6.5 / (shape[0] * 5e-6 * shape[1] * 5e-6))
    finally:
        np.random.set_state(st)
    if img is not None:
        d.check(img.shape == tuple(shape) and np.all(np.isfinite(img)) and img.min() >= 0, {'state': t, 'shape': shape})
for t, shape in itertools.product(range(12), ((6, 6), (5, 9))):
    # expected number of rays far below one: most random states draw no ray at all
    st = np.random.get_state()
    np.random.seed(5000 + t)
    img = None
    try:
        with d.case({'state': t, 'shape': shape, 'rays': 'almost none'}):
            img = lentil.detector.cosmic_rays(shape, (5e-6, 5e-6, 3e-6), 1.0, rate=0.05 / (shape[0] * 5e-6 * shape[1] * 5e-6))
    finally:
        np.random.set_state(st)
    if img is not None:
        d.check(np.shape(img) == tuple(shape) and bool(np.all(np.isfinite(img))) and np.min(img) >= 0, {'state': t, 'shape': shape, 'rays': 'almost none', 'got_shape': np.shape(img)})
emit([a, b, c, d])
