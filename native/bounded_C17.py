import itertools
import sys

import numpy as np
import lentil
from common import Bounded, emit

tier, seed = sys.argv[1], int(sys.argv[2])
rng = np.random.default_rng(seed)


def smooth_plane(shape, nseg=1):
    r, c = lentil.helper.mesh(shape)
    rad = min(shape) * 0.3
    amp = 1 / (1 + np.exp((np.hypot(r, c) - rad) / 1.5))
    amp[amp < 1e-3] = 0
    opd = 2e-8 * (r ** 2 - c ** 2) / rad ** 2 + 1e-8 * r / rad
    if nseg == 1:
        mask = (amp > 0).astype(float)
    else:
        mask = np.array([((amp > 0) & (c < 0)).astype(float), ((amp > 0) & (c >= 0)).astype(float)])
    return lentil.Pupil(amplitude=amp, opd=opd * (amp > 0), mask=mask, pixelscale=1e-3, focal_length=5.0)


a = Bounded('plane.Plane.rescale::optics_preserved', 'smooth apodised apertures on (64,64) (63,63) (64,80) (61,48); scales 0.5 0.75 1 1.3 1.5 2 2.5 3; monolithic and 2-segment masks',
            'pixel scale / scale, ceil(n s) samples, binary mask with segments, original untouched, identity at s = 1, power and image preserved to interpolation accuracy, extent within one sample')
for shape, s, nseg in itertools.product(((64, 64), (63, 63), (64, 80), (61, 48)), (0.5, 0.75, 1, 1.3, 1.5, 2, 2.5, 3), (1, 2)):
    if tier == 'quick' and (nseg == 2 and s not in (0.75, 2)):
        continue
    with a.case({'shape': shape, 'scale': s, 'nseg': nseg}):
        p = smooth_plane(shape, nseg)
        keep = (p.amplitude.copy(), p.opd.copy(), p.mask.copy(), p.pixelscale, [t for t in p.tilt])
        q = p.rescale(s)
        N = tuple(int(np.ceil(n * s)) for n in shape)
        ok = q.amplitude.shape == N and q.opd.shape == N and q.mask.shape[-2:] == N and q.mask.shape[:-2] == p.mask.shape[:-2]
        ok = ok and np.allclose(np.asarray(q.pixelscale) * s, p.pixelscale) and set(np.unique(q.mask)) <= {0, 1}
        ok = ok and np.array_equal(p.amplitude, keep[0]) and np.array_equal(p.opd, keep[1]) and np.array_equal(p.mask, keep[2]) and p.pixelscale == keep[3]
        ok = ok and q is not p and len(q._slice) == len(p._slice)
        if s == 1:
            ok = ok and np.allclose(q.amplitude, p.amplitude, atol=1e-12) and np.allclose(q.opd, p.opd, atol=1e-20) and np.array_equal(q.mask, p.mask)
        P0, P1 = (np.abs(p.amplitude) ** 2).sum(), (np.abs(q.amplitude) ** 2).sum()
        ok = ok and abs(P1 / P0 - 1) < 2e-2
        ext0, ext1 = p.pixelscale[0] * shape[0], q.pixelscale[0] * N[0]
        ok = ok and ext0 - 1e-15 <= ext1 < ext0 + q.pixelscale[0]
        wl = 600e-9
        i0 = lentil.propagate_dft(lentil.Wavefront(wl) * p, pixelscale=5e-6, shape=32, oversample=2).intensity
        i1 = lentil.propagate_dft(lentil.Wavefront(wl) * q, pixelscale=5e-6, shape=32, oversample=2).intensity
        ok = ok and np.max(np.abs(i1 - i0)) / i0.max() < 3e-2
        # later in-place work on the result must not reach the original
        q.fit_tilt(inplace=True)
        ok = ok and len(p.tilt) == len(keep[4])
        a.check(ok, {'shape': shape, 'scale': s, 'nseg': nseg, 'power_ratio': float(P1 / P0), 'image_err': float(np.max(np.abs(i1 - i0)) / i0.max())})
for ps_new in (0.5e-3, 2e-3, 0.8e-3, 3e-3, 0.7e-3, 1e-3 / 1.23456, 1e-3):
    with a.case({'resample': ps_new}):
        p = smooth_plane((64, 64))
        q = p.resample(ps_new)
        a.check(np.allclose(q.pixelscale, (ps_new, ps_new), rtol=1e-12, atol=0) and q.amplitude.shape == tuple(int(np.ceil(64 * (1e-3 / ps_new))) for _ in range(2)), {'resample': ps_new, 'pixelscale': q.pixelscale, 'shape': q.amplitude.shape})

b = Bounded('plane.Plane.rescale::every_plane_can_be_rescaled', 'planes with float / int / bool masks (1 and 2 segments) and planes that are themselves the result of a rescale; scales 0.5 1 1.5 2',
            'the operation applies to every plane: result has ceil(n s) samples, pixel scale / s, binary mask with the same segment structure')
for kind, nseg, s in itertools.product(('float', 'int', 'bool', 'rescaled'), (1, 2), (0.5, 1, 1.5, 2)):
    with b.case({'mask': kind, 'nseg': nseg, 'scale': s}):
        p = smooth_plane((48, 40), nseg)
        if kind == 'rescaled':
            p = p.rescale(1.25)
        elif kind != 'float':
            m = p.mask if nseg == 1 else p._mask
            p = lentil.Pupil(amplitude=p.amplitude, opd=p.opd, mask=m.astype(kind), pixelscale=1e-3, focal_length=5.0)
        n = p.amplitude.shape
        q = p.rescale(s)
        N = tuple(int(np.ceil(k * s)) for k in n)
        ok = q.amplitude.shape == N and q.opd.shape == N and q.mask.shape[-2:] == N and q.mask.shape[:-2] == p.mask.shape[:-2]
        ok = ok and np.allclose(np.asarray(q.pixelscale) * s, p.pixelscale) and set(np.unique(q.mask).tolist()) <= {0, 1} and q.mask.any()
        b.check(bool(ok), {'mask': kind, 'nseg': nseg, 'scale': s, 'shape': q.amplitude.shape})

c = Bounded('plane.Plane.resample::reflects_the_plane_as_it_is_now', 'resample to the same pixel scale before and after the OPD / amplitude of the plane was replaced; results are separate objects',
            'the result is computed from the current plane (no dependence on earlier calls), is a new plane every time, and the original keeps its attributes')
for ps_new in (0.5e-3, 2e-3):
    with c.case({'resample': ps_new}):
        p = smooth_plane((32, 32))
        keys0 = set(vars(p)) if hasattr(p, '__dict__') else None
        q1 = p.resample(ps_new)
        p.opd = 3.0 * p.opd + 1e-9 * (p.amplitude > 0)
        q2 = p.resample(ps_new)
        fresh = lentil.Pupil(amplitude=p.amplitude, opd=p.opd, mask=p.mask, pixelscale=1e-3, focal_length=5.0).resample(ps_new)
        ok = q1 is not q2 and q1.opd is not q2.opd and np.allclose(q2.opd, fresh.opd, atol=1e-15) and not np.allclose(q2.opd, q1.opd, atol=1e-12)
        q2.opd[:] = 0
        q3 = p.resample(ps_new)
        ok = ok and np.allclose(q3.opd, fresh.opd, atol=1e-15) and (keys0 is None or set(vars(p)) == keys0)
        c.check(bool(ok), {'resample': ps_new})
emit([a, b, c])
