import itertools
import sys

import numpy as np
import lentil
from common import Bounded, emit

tier, seed = sys.argv[1], int(sys.argv[2])
rng = np.random.default_rng(seed)


def smooth_image(shape):
    r, c = np.indices(shape)
    img = 2.0 + np.exp(-((r - shape[0] / 2.3) ** 2 + (c - shape[1] / 1.8) ** 2) / (0.08 * shape[0] * shape[1]))
    return img + 0.3 * np.cos(2 * np.pi * r / shape[0]) * np.cos(2 * np.pi * 2 * c / shape[1])


def ref(img, K):
    return np.real(np.fft.ifft2(np.fft.fft2(img) * K))


a = Bounded('C19::blurs_against_analytic_transfer_functions',
            'smooth positive images on odd shapes (9,9) (11,15) (21,13) (7,25) plus (8,12) (10,10); oversample 1..3; extents 0..2.5 samples; angles 0,30,90,-45,180; circular shifts',
            'pixel / jitter / smear return the input shape, are non-negative, equal the exact circular convolution with the separable sinc / Gaussian / directional sinc, keep the total, commute with circular translation, reduce to the identity at zero extent, and treat physical units like samples')
for shape in ((9, 9), (11, 15), (21, 13), (7, 25), (8, 12), (10, 10)):
    img = smooth_image(shape)
    fy, fx = np.fft.fftfreq(shape[0])[:, None], np.fft.fftfreq(shape[1])[None, :]
    tol = 1e-10 if (shape[0] % 2 and shape[1] % 2) else 2e-3
    for os_ in (1, 2, 3):
        with a.case({'fn': 'pixel', 'shape': shape, 'os': os_}):
            out = lentil.detector.pixel(img, os_)
            want = ref(img, np.sinc(fy * os_) * np.sinc(fx * os_))
            sh = np.roll(img, (2, -3), axis=(0, 1))
            a.check(out.shape == shape and out.min() >= 0 and np.max(np.abs(out - want)) < tol * img.max()
                    and np.allclose(lentil.detector.pixel(sh, os_), np.roll(out, (2, -3), axis=(0, 1)), atol=1e-10),
                    {'fn': 'pixel', 'shape': shape, 'os': os_, 'err': float(np.max(np.abs(out - want)))})
        for ext in (0.0, 0.7, 2.5):
            with a.case({'fn': 'jitter', 'shape': shape, 'os': os_, 'scale': ext}):
                out = lentil.jitter(img, ext, pixelscale=1, oversample=os_)
                rho2 = fx ** 2 + fy ** 2
                want = ref(img, np.exp(-2 * np.pi ** 2 * (ext * os_) ** 2 * rho2))
                phys = lentil.jitter(img, ext * 5e-6, pixelscale=5e-6, oversample=os_)
                ok = out.shape == shape and out.min() >= 0 and np.max(np.abs(out - want)) < 1e-9 * img.max() and abs(out.sum() - img.sum()) < 1e-9 * img.sum()
                ok = ok and np.allclose(phys, out, rtol=1e-9) and (ext > 0 or np.allclose(out, img, atol=1e-10))
                a.check(ok, {'fn': 'jitter', 'shape': shape, 'os': os_, 'scale': ext, 'err': float(np.max(np.abs(out - want)))})
            for ang in (0, 30, 90, -45, 180):
                with a.case({'fn': 'smear', 'shape': shape, 'os': os_, 'distance': ext, 'angle': ang}):
                    out = lentil.smear(img, ext, angle=ang, pixelscale=1, oversample=os_)
                    rot = np.sin(np.radians(ang)) * fy + np.cos(np.radians(ang)) * fx
                    want = ref(img, np.sinc(rot * ext * os_))
                    ok = out.shape == shape and out.min() >= 0 and abs(out.sum() - img.sum()) < 1e-9 * img.sum()
                    ok = ok and np.max(np.abs(out - want)) < (1e-9 if (shape[0] % 2 and shape[1] % 2) else 5e-3) * img.max()
                    ok = ok and np.allclose(lentil.smear(img, ext * 2e-6, angle=ang, pixelscale=2e-6, oversample=os_), out, rtol=1e-9)
                    a.check(ok, {'fn': 'smear', 'shape': shape, 'os': os_, 'distance': ext, 'angle': ang, 'err': float(np.max(np.abs(out - want)))})

b = Bounded('C19::totals_of_sparse_images', 'single bright pixels, a few stars and a hot column on (9,9) (12,17) (16,16); jitter scales 0.2..1.5 samples, smear distances 0.5..3 samples',
            'jitter and smear keep the total of every non-negative input and return a non-negative image of the input shape')
for shape in ((9, 9), (12, 17), (16, 16)):
    imgs = {}
    p = np.zeros(shape); p[shape[0] // 2, shape[1] // 3] = 5.0
    imgs['point'] = p
    s_ = np.zeros(shape); s_[1, 2] = 3.0; s_[shape[0] - 2, shape[1] - 3] = 1.0; s_[shape[0] // 2, 0] = 2.0
    imgs['stars'] = s_
    c_ = np.zeros(shape); c_[:, shape[1] // 2] = 1.0
    imgs['column'] = c_
    for (kind, img), ext in itertools.product(imgs.items(), (0.2, 0.4, 0.8, 1.5)):
        with b.case({'fn': 'jitter', 'image': kind, 'shape': shape, 'scale': ext}):
            out = lentil.jitter(img, ext, pixelscale=1, oversample=1)
            b.check(bool(out.shape == shape and out.min() >= 0 and abs(out.sum() - img.sum()) < 1e-9 * img.sum()),
                    {'fn': 'jitter', 'image': kind, 'shape': shape, 'scale': ext, 'total': float(out.sum()), 'expected': float(img.sum())})
        with b.case({'fn': 'smear', 'image': kind, 'shape': shape, 'distance': 2 * ext}):
            out = lentil.smear(img, 2 * ext, angle=30, pixelscale=1, oversample=1)
            b.check(bool(out.shape == shape and out.min() >= 0 and abs(out.sum() - img.sum()) < 1e-9 * img.sum()),
                    {'fn': 'smear', 'image': kind, 'shape': shape, 'distance': 2 * ext, 'total': float(out.sum()), 'expected': float(img.sum())})
emit([a, b])
