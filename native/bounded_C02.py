import itertools
import sys

import numpy as np
import lentil
from common import Bounded, emit

tier, seed = sys.argv[1], int(sys.argv[2])
rng = np.random.default_rng(seed)


def fraunhofer(f, dx, du, wl, z, os_, out_shape):
    """Unitary Fraunhofer sum of the pupil samples f on the (oversampled) output grid, origin at floor(n/2)."""
    n, m = f.shape
    N, M = out_shape
    ar, ac = dx * du[0] / (wl * z * os_), dx * du[1] / (wl * z * os_)
    r, c = np.arange(n) - n // 2, np.arange(m) - m // 2
    u, v = np.arange(N) - N // 2, np.arange(M) - M // 2
    E1 = np.exp(-2j * np.pi * ar * np.outer(u, r))
    E2 = np.exp(-2j * np.pi * ac * np.outer(c, v))
    return E1 @ f @ E2 * np.sqrt(ar * ac)


def masks(shape):
    N, M = shape
    rr, cc = np.indices(shape)
    disc = ((rr - N // 2 - 1) ** 2 + (cc - M // 2 + 2) ** 2 <= (min(N, M) // 4) ** 2).astype(float)
    ell = np.zeros(shape); ell[2:N - 3, 3] = 1; ell[N - 4, 3:M - 2] = 1
    two = np.zeros(shape); two[1:4, 2:5] = 1; two[N - 5:N - 2, M - 6:M - 1] = 1
    col = np.zeros(shape); col[:, M // 2 + 1] = 1
    return {'disc': disc, 'L': ell, 'two-blobs': two, 'single-column': col}


a = Bounded('propagate.propagate_dft::masked_and_windowed_field', 'pupil 14x17 with random complex field; outputs 16x16 / 15x18 / 21x14, oversample 1..2, non-rectangular output masks (disc, L, two blobs, one column), prop windows None / even / odd',
            'inside (mask bounding box intersected with the prop window) the field equals the unitary Fraunhofer sum, outside it is exactly zero; metadata')
shapes = ((16, 16), (15, 18), (21, 14))
for shape, os_, (mname, _), pshape in itertools.product(shapes, (1, 2), masks((4, 4)).items(), (None, 6, 9)):
    if tier == 'quick' and (os_ == 2 and pshape == 9):
        continue
    with a.case({'shape': shape, 'os': os_, 'mask': mname, 'prop_shape': pshape}):
        wl, z, dx, du = 600e-9, 5.0, 1e-3, (5e-6, 7e-6)
        amp = rng.uniform(0.2, 1, size=(14, 17))
        opd = rng.normal(scale=3e-8, size=(14, 17))
        pup = lentil.Pupil(amplitude=amp, opd=opd, pixelscale=dx, focal_length=z)
        out_shape = (shape[0] * os_, shape[1] * os_)
        mask = masks(out_shape)[mname]
        w = lentil.propagate_dft(lentil.Wavefront(wl) * pup, pixelscale=du, shape=shape, prop_shape=pshape, oversample=os_, mask=mask)
        ref = fraunhofer(amp * np.exp(2j * np.pi * opd / wl), dx, du, wl, z, os_, out_shape)
        rows, cols = np.where(mask > 0)
        box = np.zeros(out_shape, bool)
        box[rows.min():rows.max() + 1, cols.min():cols.max() + 1] = True
        if pshape is not None:
            P = pshape * os_
            win = np.zeros(out_shape, bool)
            r0, c0 = out_shape[0] // 2 - P // 2, out_shape[1] // 2 - P // 2
            win[max(r0, 0):r0 + P, max(c0, 0):c0 + P] = True
            box &= win
        want = np.where(box, ref, 0)
        got = w.field
        ok = got.shape == out_shape and np.allclose(got[box], want[box], atol=1e-10 * np.abs(ref).max()) and np.all(got[~box] == 0)
        ok = ok and str(w.ptype) == 'image' and np.allclose(w.pixelscale, (du[0] / os_, du[1] / os_))
        a.check(bool(ok), {'shape': shape, 'os': os_, 'mask': mname, 'prop_shape': pshape,
                           'max_err': float(np.max(np.abs(got - want))) if got.shape == out_shape else None})
emit([a])
