import itertools
import sys

import numpy as np
import lentil
from common import Bounded, emit

tier, seed = sys.argv[1], int(sys.argv[2])
rng = np.random.default_rng(seed)
LD = np.longdouble


def defining_sum(f, alpha, shape, shift, offset, unitary):
    """The statement's double sum, evaluated in extended precision."""
    m, n = f.shape
    M, N = shape
    x = (np.arange(m) - m // 2 + offset[0]).astype(LD)
    y = (np.arange(n) - n // 2 + offset[1]).astype(LD)
    u = (np.arange(M) - M // 2).astype(LD) - LD(shift[0])
    v = (np.arange(N) - N // 2).astype(LD) - LD(shift[1])
    twopi = 2 * np.pi.__class__(np.pi) if False else LD(2) * np.arccos(LD(-1))
    F = np.zeros((M, N), dtype=np.clongdouble)
    fr = f.astype(np.clongdouble)
    for a in range(M):
        er = np.exp(-1j * twopi * LD(alpha[0]) * x * u[a])
        for b in range(N):
            ec = np.exp(-1j * twopi * LD(alpha[1]) * y * v[b])
            F[a, b] = np.sum(fr * er[:, None] * ec[None, :])
    if unitary:
        F = F * np.sqrt(np.abs(LD(alpha[0]) * LD(alpha[1])))
    return F


b = Bounded('fourier.dft2::defining_double_sum',
            'all input shapes <= 4x4 (quick: <= 3x3), output shapes <= 4x4, 3 random (alpha_r != alpha_c, shift, offset) draws each, both flags, with and without out=',
            'dft2 equals the defining double sum (validates finite-sum distributivity L1 and the float evaluation to 1e-11)')
mx = 3 if tier == 'quick' else 4
for m, n, M, N in itertools.product(range(1, mx + 1), range(1, mx + 1), range(1, mx + 1), range(1, mx + 1)):
    for _ in range(2 if tier == 'quick' else 3):
        f = rng.normal(size=(m, n)) + 1j * rng.normal(size=(m, n))
        alpha = tuple(rng.uniform(-0.6, 0.6, size=2))
        shift = tuple(rng.uniform(-2, 2, size=2))
        offset = tuple(int(v) for v in rng.integers(-3, 4, size=2))
        unitary = bool(rng.integers(0, 2))
        ref = defining_sum(f, alpha, (M, N), shift, offset, unitary)
        got = lentil.fourier.dft2(f, alpha, shape=(M, N), shift=shift, offset=offset, unitary=unitary)
        out = np.full((M, N), 7 + 3j)
        got2 = lentil.fourier.dft2(f, alpha, shape=(M, N), shift=shift, offset=offset, unitary=unitary, out=out)
        err = float(np.max(np.abs(got - ref))) / (1 + float(np.max(np.abs(ref))))
        ok = err < 1e-11 and got2 is out and np.array_equal(got, got2)
        b.check(ok, {'f.shape': (m, n), 'shape': (M, N), 'alpha': alpha, 'shift': shift, 'offset': offset,
                     'unitary': unitary, 'rel_err': err})

r = Bounded('fourier.idft2::roundtrip', 'all shapes <= 6x6, both flags (validates the orthogonality lemma L2 numerically)',
            'idft2(dft2(f)) = f for alpha = 1/n, equal shapes; unitary transform conserves energy')
for m, n in itertools.product(range(1, 7), range(1, 7)):
    f = rng.normal(size=(m, n)) + 1j * rng.normal(size=(m, n))
    a = (1 / m, 1 / n)
    for unitary in (True, False):
        F = lentil.fourier.dft2(f, a, unitary=unitary)
        g = lentil.fourier.idft2(F, a, unitary=unitary)
        ok = np.max(np.abs(g - f)) < 1e-12
        if unitary:
            ok = ok and abs((np.abs(F) ** 2).sum() - (np.abs(f) ** 2).sum()) < 1e-10 * (1 + (np.abs(f) ** 2).sum())
        r.check(ok, {'shape': (m, n), 'unitary': unitary, 'err': float(np.max(np.abs(g - f)))})

h = Bounded('fourier.dft2::history', '40 interleaved calls on 3 shape keys with shifts and offsets',
            'repeated shapes (lru_cache of coordinates) give the same answer as a first call')
keys = [((3, 4), (4, 3)), ((2, 2), (3, 3)), ((4, 4), (2, 5))]
for t in range(40):
    (m, n), (M, N) = keys[int(rng.integers(0, 3))]
    f = rng.normal(size=(m, n)) + 1j * rng.normal(size=(m, n))
    alpha = tuple(rng.uniform(-0.5, 0.5, size=2))
    shift = tuple(rng.uniform(-2, 2, size=2))
    offset = tuple(int(v) for v in rng.integers(-2, 3, size=2))
    ref = defining_sum(f, alpha, (M, N), shift, offset, True)
    got = lentil.fourier.dft2(f, alpha, shape=(M, N), shift=shift, offset=offset)
    err = float(np.max(np.abs(got - ref))) / (1 + float(np.max(np.abs(ref))))
    h.check(err < 1e-11, {'call': t, 'shapes': ((m, n), (M, N)), 'rel_err': err})
emit([b, r, h])
