import itertools
import sys

import numpy as np
import scipy.interpolate
from lentil.radiometry import Spectrum
from common import Bounded, emit

tier, seed = sys.argv[1], int(sys.argv[2])
rng = np.random.default_rng(seed)
SI = {'m': 1.0, 'um': 1e-6, 'nm': 1e-9, 'angstrom': 1e-10}
OPS = {'add': np.add, 'subtract': np.subtract, 'multiply': np.multiply, 'divide': np.divide, 'power': np.power}


def reference(wa, va, wb, vb, op, sampling, method, fill):
    """Independent reference on wavelengths in a common unit."""
    lo, hi = min(wa.min(), wb.min()), max(wa.max(), wb.max())
    d = {'min': min(np.diff(wa).min(), np.diff(wb).min()), 'left': np.diff(wa).min(), 'right': np.diff(wb).min()}.get(sampling, sampling)
    num = int(np.ceil((hi - lo) / d))
    grid = np.linspace(lo, hi, num + 1)

    def side(w, v):
        out = np.full(grid.shape, float(fill))
        inside = (grid >= w.min()) & (grid <= w.max())
        f = scipy.interpolate.interp1d(w, v, kind=method, bounds_error=False, fill_value=fill)
        out[inside] = f(grid[inside])
        return out
    return grid, OPS[op](side(wa, va), side(wb, vb))


a = Bounded('C13::binary_operations', 'ranges identical / nested / partially overlapping / disjoint; uniform and non-uniform grids; 5 operators; sampling min / left / right / float; linear and cubic; fill 0 and 1; units m um nm angstrom on either operand',
            'result on the uniform union grid at the finer (or requested) sampling = operator applied to the interpolated values with fill outside; commutative; unit-agnostic; new object; operands describe the same physical spectrum afterwards')
ranges = {'identical': ((400, 700), (400, 700)), 'nested': ((400, 800), (500, 600)), 'overlap': ((400, 650), (550, 900)), 'disjoint': ((400, 500), (650, 800))}
cases = list(itertools.product(ranges.items(), ('add', 'subtract', 'multiply', 'divide', 'power'), ('min', 'left', 'right', 7.3), ('linear', 'cubic'), (0, 1)))
if tier == 'quick':
    cases = [c for k, c in enumerate(cases) if k % 7 == 0]
for (rname, (ra, rb)), op, sampling, method, fill in cases:
    with a.case({'range': rname, 'op': op, 'sampling': sampling, 'method': method, 'fill': fill}):
        wa = np.unique(np.concatenate([[ra[0], ra[1]], rng.uniform(ra[0] + 1, ra[1] - 1, size=9)]))
        wb = np.unique(np.concatenate([[rb[0], rb[1]], rng.uniform(rb[0] + 1, rb[1] - 1, size=7)]))
        if min(np.diff(wa).min(), np.diff(wb).min()) < 0.5:
            continue
        # (non-uniform on both sides: the number of grid intervals ceil((max-min)/d) is then far from an integer
        #  boundary, so float rounding in a unit conversion cannot flip it)
        ratio = (max(wa.max(), wb.max()) - min(wa.min(), wb.min())) / min(np.diff(wa).min(), np.diff(wb).min())
        if isinstance(sampling, str) and abs(ratio - round(ratio)) < 1e-6:
            continue
        va, vb = rng.uniform(0.5, 2, size=wa.size), rng.uniform(0.5, 2, size=wb.size)
        ua, ub = rng.choice(['m', 'um', 'nm', 'angstrom']), rng.choice(['m', 'um', 'nm', 'angstrom'])
        A_ = Spectrum(wa * 1e-9 / SI[ua], va, ua)
        B_ = Spectrum(wb * 1e-9 / SI[ub], vb, ub)
        samp = sampling if isinstance(sampling, str) else sampling * 1e-9 / SI[ua]
        res = getattr(A_, op)(B_, sampling=samp, method=method, fill_value=fill)
        grid, val = reference(wa, va, wb, vb, op, sampling, method, fill)
        ends = np.array([wa.min(), wa.max(), wb.min(), wb.max()])
        gw = res.wave * SI[ua] / 1e-9
        basic = res.waveunit == ua and res is not A_ and res is not B_ and gw.shape == grid.shape and np.allclose(gw, grid, rtol=1e-9)
        basic = basic and np.allclose(A_.wave * SI[A_.waveunit], wa * 1e-9, rtol=1e-12) and np.allclose(B_.wave * SI[B_.waveunit], wb * 1e-9, rtol=1e-12)
        basic = basic and np.array_equal(A_.value, va) and np.array_equal(B_.value, vb)
        if not basic:
            a.check(False, {'range': rname, 'op': op, 'sampling': sampling, 'method': method, 'fill': fill, 'units': (str(ua), str(ub)), 'what': 'grid/units/operands'})
            continue
        near_end = np.array([np.min(np.abs(ends - g)) < 1e-6 for g in grid])
        diff = ~np.isclose(res.value, val, rtol=1e-7, atol=1e-9, equal_nan=True)
        if op in ('add', 'multiply') and sampling == 'min':
            rev = getattr(B_, op)(A_, sampling='min', method=method, fill_value=fill)
            rw = rev.wave * SI[rev.waveunit] / 1e-9
            if rw.shape != grid.shape or not np.allclose(rw, grid, rtol=1e-9):
                a.check(False, {'range': rname, 'op': op, 'units': (str(ua), str(ub)), 'what': 'reversed operands give another grid'})
                continue
            diff |= ~np.isclose(rev.value, val, rtol=1e-7, atol=1e-9, equal_nan=True)
        known = None
        if diff.any() and not diff[~near_end].any():
            # float rounding of a converted range end: a grid sample that coincides with an operand's range end falls
            # just outside the converted operand's closed range and gets the fill value (recorded known finding)
            known = 'range-end-on-a-grid-point'
        a.check(not diff.any(), {'range': rname, 'op': op, 'sampling': sampling, 'method': method, 'fill': fill, 'units': (str(ua), str(ub)),
                                 'bad_grid_points': [float(g) for g in grid[diff][:4]]}, known=known)

b = Bounded('C13::scalar_and_vector_operations', '5 operators x scalar / equal-length vector x 4 units', 'element-wise on the unchanged grid, new object')
for op, unit in itertools.product(OPS, SI):
    w = np.linspace(400, 700, 7) * 1e-9 / SI[unit]
    v = rng.uniform(0.5, 2, size=7)
    s = Spectrum(w, v, unit)
    for other in (1.7, rng.uniform(0.5, 2, size=7)):
        r = getattr(s, op)(other)
        b.check(r is not s and np.array_equal(r.wave, w) and np.allclose(r.value, OPS[op](v, other)) and r.waveunit == unit and np.array_equal(s.value, v), {'op': op, 'unit': unit})
# same numbers, different units: physically disjoint ranges must NOT be combined index by index
s1 = Spectrum(np.array([2., 4, 6, 8, 10]), np.ones(5), 'nm')
s2 = Spectrum(np.array([2., 4, 6, 8, 10]), 2 * np.ones(5), 'angstrom')
r = s1.add(s2)
b.check(r.wave.size > 5 and abs(r.wave.min() - 0.2) < 1e-12 and abs(r.wave.max() - 10) < 1e-12, {'equal_numbers_different_units': r.wave.size})
# repeated operations with different interpolation options on the same operands
s3 = Spectrum(np.array([400., 450, 520, 600, 700]), np.array([1., 3, 2, 5, 4]), 'nm')
s4 = Spectrum(np.linspace(400, 700, 4), np.array([2., 1, 3, 2]), 'nm')
r_lin1 = s3.add(s4, method='linear').value
r_cub = s3.add(s4, method='cubic').value
r_lin2 = s3.add(s4, method='linear').value
fresh = Spectrum(np.array([400., 450, 520, 600, 700]), np.array([1., 3, 2, 5, 4]), 'nm').add(Spectrum(np.linspace(400, 700, 4), np.array([2., 1, 3, 2]), 'nm'), method='cubic').value
b.check(np.array_equal(r_lin1, r_lin2) and np.allclose(r_cub, fresh) and not np.allclose(r_cub, r_lin1), {'repeated_calls_with_different_methods': True})

c = Bounded('C13::operand_history_and_sampling_of_disjoint_ranges', 'operands edited between operations (value setter, in-place write, resample, pad); disjoint ranges whose gap is smaller than both sample spacings, both operand orders, 4 unit pairs',
            'each operation interpolates the operands as they are now; the common grid is sampled at the finer of the two operand spacings (the gap between ranges is not a spacing); commutative')
for how in ('setter', 'in-place', 'resample', 'pad'):
    with c.case({'edit': how}):
        s5 = Spectrum(np.array([400., 450, 520, 600, 700]), np.array([1., 3, 2, 5, 4]), 'nm')
        s6 = Spectrum(np.linspace(400, 700, 4), np.array([2., 1, 3, 2]), 'nm')
        first = s5.add(s6).value.copy()
        if how == 'setter':
            s5.value = np.array([4., 1, 1, 2, 9])
        elif how == 'in-place':
            s5.value[:] = np.array([4., 1, 1, 2, 9])
        elif how == 'resample':
            s5.resample(np.array([400., 500, 600, 700]))
        else:
            s5.pad((350., 760.))
        again = s5.add(s6)
        grid, val = reference(s5.wave.copy(), s5.value.copy(), s6.wave.copy(), s6.value.copy(), 'add', 'min', 'linear', 0)
        ok = again.wave.shape == grid.shape and np.allclose(again.wave, grid, rtol=1e-9)
        inner = np.array([np.min(np.abs(np.array([s5.wave.min(), s5.wave.max(), s6.wave.min(), s6.wave.max()]) - g)) > 1e-6 for g in grid]) if ok else None
        ok = ok and np.allclose(again.value[inner], val[inner], rtol=1e-7, atol=1e-9)
        c.check(bool(ok), {'edit': how, 'first': first[:3].tolist(), 'again': again.value[:3].tolist()})
for (ua, ub), order in itertools.product((('nm', 'nm'), ('um', 'nm'), ('m', 'angstrom'), ('angstrom', 'um')), ('lower-first', 'upper-first')):
    with c.case({'disjoint_small_gap': (ua, ub), 'order': order}):
        wa, wb = np.linspace(400, 500, 11), np.linspace(503.3, 603.3, 11) + np.array([0, 0.4] + [0] * 9)
        va, vb = rng.uniform(0.5, 2, size=wa.size), rng.uniform(0.5, 2, size=wb.size)
        A_, B_ = Spectrum(wa * 1e-9 / SI[ua], va, ua), Spectrum(wb * 1e-9 / SI[ub], vb, ub)
        L_, R_ = (A_, B_) if order == 'lower-first' else (B_, A_)
        res = L_.add(R_)
        grid, val = (reference(wa, va, wb, vb, 'add', 'min', 'linear', 0) if order == 'lower-first' else reference(wb, vb, wa, va, 'add', 'min', 'linear', 0))
        gw = res.wave * SI[res.waveunit] / 1e-9
        c.check(bool(gw.shape == grid.shape and np.allclose(gw, grid, rtol=1e-9)), {'disjoint_small_gap': (ua, ub), 'order': order, 'samples': int(gw.size), 'expected': int(grid.size)})
for dta, dtb, fill in itertools.product((int, float), (int, float), (0, 0.5)):
    with c.case({'value_dtypes': (dta.__name__, dtb.__name__), 'fill': fill}):
        wa, wb = np.array([400., 450, 520, 600, 700]), np.array([430., 500, 640, 760])
        va, vb = np.array([1, 3, 2, 5, 4]).astype(dta), np.array([2, 7, 1, 3]).astype(dtb)
        res = Spectrum(wa.copy(), va.copy(), 'nm').add(Spectrum(wb.copy(), vb.copy(), 'nm'), fill_value=fill)
        grid, val = reference(wa, va.astype(float), wb, vb.astype(float), 'add', 'min', 'linear', fill)
        inner = np.array([np.min(np.abs(np.array([400., 700, 430, 760]) - g)) > 1e-6 for g in grid])
        ok = res.wave.shape == grid.shape and np.allclose(res.wave, grid, rtol=1e-9) and np.allclose(res.value[inner], val[inner], rtol=1e-9, atol=1e-12)
        c.check(bool(ok), {'value_dtypes': (dta.__name__, dtb.__name__), 'fill': fill})
emit([a, b, c])
