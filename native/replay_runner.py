"""Native side of counter-model replay: runs under /venv/bin/python with PYTHONPATH=<repo>.
Reads one JSON request on stdin, calls the real lentil function, writes the outcome as JSON."""
import copy
import importlib
import json
import sys
import warnings

import numpy as np


def dec(x):
    if x is None or isinstance(x, (bool, int, str)):
        return x
    if isinstance(x, float):
        return x
    k = x['k']
    if k == 'f':
        return x['n'] / x['d']
    if k == 'c':
        return complex(dec(x['re']), dec(x['im']))
    if k == 't':
        return tuple(dec(v) for v in x['v'])
    if k == 'l':
        return [dec(v) for v in x['v']]
    if k == 'd':
        return {kk: dec(v) for kk, v in x['v'].items()}
    if k == 's':
        return slice(dec(x['v'][0]), dec(x['v'][1]), dec(x['v'][2]))
    if k == 'e':
        return Ellipsis
    if k == 'inf':
        return np.inf
    if k == 'a':
        dt = {'complex': complex, 'float': float, 'int': int, 'bool': bool, 'str': str}[x['dtype']]
        def rec(v):
            if isinstance(v, list):
                return [rec(u) for u in v]
            return dec(v)
        a = np.array(rec(x['v']), dtype=dt)
        return a.reshape(x['shape'])
    if k == 'o':
        mod, cls = x['cls'].rsplit('.', 1)
        C = getattr(importlib.import_module(mod), cls)
        o = object.__new__(C)
        for kk, v in x['attrs'].items():
            object.__setattr__(o, kk, dec(v))
        return o
    raise ValueError(k)


def enc(v, depth=0):
    import lentil
    if v is None or isinstance(v, (bool, str)):
        return v
    if isinstance(v, (np.bool_,)):
        return bool(v)
    if isinstance(v, (int, np.integer)):
        return int(v)
    if isinstance(v, (float, np.floating)):
        f = float(v)
        if f != f or f in (float('inf'), float('-inf')):
            return {'k': 'nonfinite', 'v': repr(f)}
        return {'k': 'f', 'v': f.hex()}
    if isinstance(v, (complex, np.complexfloating)):
        return {'k': 'c', 're': enc(float(v.real)), 'im': enc(float(v.imag))}
    if isinstance(v, tuple):
        return {'k': 't', 'v': [enc(u) for u in v]}
    if isinstance(v, list):
        return {'k': 'l', 'v': [enc(u) for u in v]}
    if isinstance(v, dict):
        return {'k': 'd', 'v': {str(kk): enc(u) for kk, u in v.items()}}
    if isinstance(v, slice):
        return {'k': 's', 'v': [enc(v.start), enc(v.stop), enc(v.step)]}
    if v is Ellipsis:
        return {'k': 'e'}
    if isinstance(v, np.ndarray):
        kind = v.dtype.kind
        dt = {'c': 'complex', 'f': 'float', 'i': 'int', 'u': 'int', 'b': 'bool', 'U': 'str'}.get(kind, 'object')
        return {'k': 'a', 'dtype': dt, 'npdtype': str(v.dtype), 'shape': list(v.shape),
                'v': [enc(u) for u in v.ravel().tolist()] if dt != 'complex' else [enc(complex(u)) for u in v.ravel()]}
    if type(v).__module__.startswith('lentil'):
        attrs = {}
        names = []
        for c in type(v).__mro__:
            names += list(getattr(c, '__slots__', ()))
        if hasattr(v, '__dict__'):
            names += list(v.__dict__.keys())
        for n in names:
            try:
                attrs[n] = enc(getattr(v, n), depth + 1)
            except AttributeError:
                pass
        return {'k': 'o', 'cls': type(v).__module__ + '.' + type(v).__name__, 'attrs': attrs}
    return {'k': 'opaque', 'v': repr(v)[:200]}


def main():
    req = json.load(sys.stdin)
    parts = req['function'].split('.')
    # resolve module / class / function
    obj = None
    for i in range(len(parts) - 1, 0, -1):
        try:
            obj = importlib.import_module('.'.join(parts[:i]))
            rest = parts[i:]
            break
        except ImportError:
            continue
    for r in rest:
        if isinstance(obj, property) and r in ('setter', 'getter'):
            obj = obj.fset if r == 'setter' else obj.fget
            continue
        obj = getattr(obj, r)
    if isinstance(obj, property):
        obj = obj.fget
    args = {k: dec(v) for k, v in req['args'].items()}
    before = {k: enc(v) for k, v in args.items()}
    order = req['order']
    out = {}
    with warnings.catch_warnings(record=True) as wlist:
        warnings.simplefilter('always')
        try:
            res = obj(*[args[k] for k in order])
            out = {'kind': 'return', 'value': enc(res)}
            out['aliases'] = [k for k in order if res is args[k]]
        except Exception as e:     # the outcome we report
            out = {'kind': 'raise', 'exc': type(e).__name__, 'msg': str(e)[:300]}
        out['warnings'] = [str(w.message)[:100] for w in wlist]
    after = {k: enc(v) for k, v in args.items()}
    out['after'] = after
    out['changed'] = [k for k in order if json.dumps(before[k], sort_keys=True) != json.dumps(after[k], sort_keys=True)]
    json.dump(out, sys.stdout)


if __name__ == '__main__':
    main()
