import itertools
import sys

import numpy as np
import lentil
from common import Bounded, emit

tier, seed = sys.argv[1], int(sys.argv[2])
rng = np.random.default_rng(seed)

a = Bounded('C05::full_period_energy', 'pupils 6..9 px (even/odd, non-square), per-axis integer periods N_r != N_c, oversample 1..3, DFT and FFT propagators',
            'total output intensity over exactly one period equals sum |field|^2')
for (n, m), os_ in itertools.product(((6, 6), (7, 9), (8, 5)), (1, 2, 3)):
    amp = rng.uniform(0.2, 1, size=(n, m))
    opd = rng.normal(scale=5e-8, size=(n, m))
    # choose dx, du so that 1/alpha is an integer per axis: N_k = lambda z os / (dx_k du_k)
    wl, z = 500e-9, 2.0
    Nr, Nc = (n + 3) * os_, (m + 5) * os_
    dx = (1e-3, 1.25e-3)
    du = (wl * z * os_ / (dx[0] * Nr), wl * z * os_ / (dx[1] * Nc))
    p = lentil.Pupil(amplitude=amp, opd=opd, pixelscale=dx, focal_length=z)
    w = lentil.Wavefront(wl) * p
    power = float((np.abs(w.field) ** 2).sum())
    out = lentil.propagate_dft(w, pixelscale=du, shape=(Nr // os_, Nc // os_), oversample=os_)
    tot = float(out.intensity.sum())
    a.check(abs(tot - power) < 1e-9 * power, {'shape': (n, m), 'period': (Nr, Nc), 'os': os_, 'dft_total': tot, 'power': power})
    # nested windows: non-negative, monotone, bounded by the input power
    prev = 0.0
    okw = True
    for k in range(1, min(Nr, Nc) // os_ + 1):
        sub = lentil.propagate_dft(lentil.Wavefront(wl) * p, pixelscale=du, shape=(k, k), oversample=os_).intensity
        t = float(sub.sum())
        okw = okw and sub.min() >= 0 and t >= prev - 1e-12 * power and t <= power * (1 + 1e-9)
        prev = t
    a.check(okw, {'shape': (n, m), 'nested_windows': True})
for n, os_ in itertools.product((6, 7), (1, 2)):
    amp = rng.uniform(0.2, 1, size=(n, n))
    wl, z, dx = 500e-9, 2.0, 1e-3
    N = (n + 4) * os_ + (1 if os_ == 1 else 0)
    du = wl * z * os_ / (dx * N)
    p = lentil.Pupil(amplitude=amp, opd=rng.normal(scale=5e-8, size=(n, n)), pixelscale=dx, focal_length=z)
    w = lentil.Wavefront(wl) * p
    power = float((np.abs(w.field) ** 2).sum())
    out = lentil.propagate_fft(w, pixelscale=du, oversample=os_)
    tot = float((np.abs(out.data[0].data) ** 2).sum())
    a.check(abs(tot - power) < 1e-9 * power and abs(out.wavelength - wl) < 1e-15, {'fft': True, 'n': n, 'os': os_, 'total': tot, 'power': power})

b = Bounded('util.normalize_power::power', '40 random complex arrays and target powers, imaged with propagate_dft over a full period',
            'normalize_power(a, p) has power p and images to total p')
for t in range(40):
    n = int(rng.integers(2, 8))
    arr = rng.normal(size=(n, n)) + 1j * rng.normal(size=(n, n)) * rng.integers(0, 2)
    target = float(rng.uniform(0.1, 5))
    out = lentil.normalize_power(arr, target)
    b.check(abs(float((np.abs(out) ** 2).sum()) - target) < 1e-12 * target, {'n': n, 'target': target})
emit([a, b])
