import itertools
import sys

import numpy as np
from lentil.radiometry import Spectrum
from common import Bounded, emit

tier, seed = sys.argv[1], int(sys.argv[2])
rng = np.random.default_rng(seed)


def wf(s):
    w, v = np.asarray(s.wave), np.asarray(s.value)
    return w.shape == v.shape and w.ndim == 1 and np.all(w > 0) and np.all(np.diff(w) > 0)


def rand_spectrum(n=9, lo=400., hi=800., unit='nm'):
    w = np.unique(np.concatenate([[lo, hi], rng.uniform(lo + 1, hi - 1, size=n - 2)]))
    return Spectrum(w, rng.uniform(0.2, 2, size=w.size), unit)


a = Bounded('C15::integrate', '60 random non-uniform spectra', 'trapezoid integration is linear, additive over intervals meeting at a sample, exact for piecewise-linear data; closed-range selection')
for t in range(60):
    s = rand_spectrum()
    w, v = s.wave.copy(), s.value.copy()
    k = int(rng.integers(1, w.size - 1))
    tot = s.integrate(method='trapz')
    left, right = s.integrate(end=w[k], method='trapz'), s.integrate(start=w[k], method='trapz')
    ref = float(np.sum(np.diff(w) * (v[:-1] + v[1:]) / 2))
    s2 = Spectrum(w, 3 * v + 2 * w, 'nm')
    lin = s2.integrate(method='trapz')
    refw = float(np.sum(np.diff(w) * (w[:-1] + w[1:]) / 2))
    sel = s.integrate(start=w[1], end=w[-2], method='trapz')
    refsel = float(np.sum(np.diff(w[1:-1]) * (v[1:-2] + v[2:-1]) / 2))
    a.check(abs(tot - ref) < 1e-9 * abs(ref) and abs(left + right - tot) < 1e-9 * abs(tot) and abs(lin - (3 * ref + 2 * refw)) < 1e-9 * abs(lin)
            and abs(sel - refsel) < 1e-9 * (1 + abs(refsel)) and abs(Spectrum(w, 2 * v, 'nm').integrate() - 2 * s.integrate()) < 1e-9 * abs(tot),
            {'case': t})

b = Bounded('C15::bin', 'random spectra x trapezoid (any centre spacing) and Simpson (uniform centres, uniform data); both end treatments; units nm / um',
            'one value per centre, non-negative for non-negative spectra, exact for spectra linear across each bin, bins sum to the integral with power preservation')
for t, ends, unit in itertools.product(range(8 if tier == 'quick' else 30), ('symmetric', 'inside'), ('nm', 'um')):
    f = {'nm': 1.0, 'um': 1e-3}[unit]
    with b.case({'case': t, 'ends': ends, 'unit': unit}):
        s = Spectrum(np.linspace(300, 900, 61) * f, rng.uniform(0.2, 2, size=61), unit)
        centres = np.sort(rng.uniform(420, 780, size=5)) * f
        out = s.bin(centres, 'trapz', ends=ends, preserve_power=True, waveunit=unit)
        ok = out.shape == (5,) and np.all(out >= 0)
        ok = ok and abs(out.sum() - s.integrate(centres.min(), centres.max(), method='trapz')) < 1e-9 * abs(out.sum())
        lin = Spectrum(np.linspace(300, 900, 61) * f, 0.5 + np.linspace(300, 900, 61) / 600, unit)
        raw = lin.bin(centres, 'trapz', ends=ends, preserve_power=False, waveunit=unit)
        d = np.diff(centres) / 2
        edges = np.concatenate([[centres[0] - d[0] if ends == 'symmetric' else centres[0]], centres[:-1] + d, [centres[-1] + d[-1] if ends == 'symmetric' else centres[-1]]])
        g = lambda x: 0.5 + (x / f) / 600
        exact = np.array([(edges[k + 1] - edges[k]) * (g(edges[k]) + g(edges[k + 1])) / 2 for k in range(5)])
        ok = ok and np.allclose(raw, exact, rtol=1e-9)
        uc = np.linspace(450, 750, 7) * f
        sim = s.bin(uc, 'simps', ends=ends, preserve_power=True, waveunit=unit)
        ok = ok and sim.shape == (7,) and abs(sim.sum() - s.integrate(uc.min(), uc.max(), method='simps')) < 1e-9 * abs(sim.sum())
        b.check(ok, {'case': t, 'ends': ends, 'unit': unit})

c = Bounded('C15::resize_sequences', '%d random sequences of crop / trim / pad / append / resample (refused operations included)' % (40 if tier == 'quick' else 200),
            'after every operation, refused or not: strictly increasing positive wavelengths, one value per wavelength, retained samples unaltered; crop keeps exactly the closed range, trim exactly first..last above tolerance')
for t in range(40 if tier == 'quick' else 200):
    s = rand_spectrum(n=int(rng.integers(5, 12)))
    ok = True
    for step in range(6):
        before = dict(zip(np.asarray(s.wave).tolist(), np.asarray(s.value).tolist()))
        op = rng.choice(['crop', 'trim', 'pad', 'append', 'resample', 'bad_resample', 'bad_append'])
        try:
            if op == 'crop':
                lo, hi = sorted(rng.uniform(s.wave[0] - 20, s.wave[-1] + 20, size=2))
                if np.sum((s.wave >= lo) & (s.wave <= hi)) < 2:
                    continue
                keep = {w: v for w, v in before.items() if lo <= w <= hi}
                s.crop(lo, hi)
                ok = ok and dict(zip(s.wave.tolist(), s.value.tolist())) == keep
            elif op == 'trim':
                v = np.asarray(s.value).copy()
                tol = 0.3
                above = np.where(v / v.max() > tol)[0]
                s.trim(tol)
                keep = {w: before[w] for w in list(before)[above[0]:above[-1] + 1]}
                ok = ok and dict(zip(s.wave.tolist(), s.value.tolist())) == keep
            elif op == 'pad':
                s.pad([s.wave[0] - 30, s.wave[-1] + 45])
                now = dict(zip(s.wave.tolist(), s.value.tolist()))
                ok = ok and all(now.get(w) == v for w, v in before.items())
            elif op == 'append':
                n = s.wave.size
                other = Spectrum(s.wave[-1] + np.arange(1, n + 1) * 3.0, rng.uniform(0.2, 2, size=n), 'nm')
                s.append(other)
                now = dict(zip(s.wave.tolist(), s.value.tolist()))
                ok = ok and all(now.get(w) == v for w, v in before.items()) and len(now) == 2 * n
            elif op == 'resample':
                s.resample(np.linspace(s.wave[0], s.wave[-1], 7))
            elif op == 'bad_resample':
                s.resample([500., 450., 600.])
                ok = False
            elif op == 'bad_append':
                n = s.wave.size
                s.append(Spectrum(np.concatenate([s.wave[:1] + 1e5, s.wave[1:] - 1e-3 + 1e5 * 0 + (s.wave[-1] - s.wave[1:]) + 1]) if False else s.wave[-1] - 5 + np.arange(n) * 4.0 + (np.arange(n) > 0) * 6, np.ones(n), 'nm'))
                ok = ok and wf(s)
        except ValueError:
            if op in ('bad_resample', 'bad_append'):
                now = dict(zip(np.asarray(s.wave).tolist(), np.asarray(s.value).tolist()))
                ok = ok and now == before
            else:
                pass
        ok = ok and wf(s)
        if not ok:
            break
    c.check(ok, {'sequence': t, 'last_op': str(op)})

for t in range(30):
    with a.case({'bounds_between_samples': t}):
        s = rand_spectrum()
        w, v = s.wave.copy(), s.value.copy()
        i, j = sorted(rng.choice(np.arange(1, w.size - 1), size=2, replace=False))
        lo, hi = w[i] - 0.37 * (w[i] - w[i - 1]), w[j] + 0.41 * (w[j + 1] - w[j])
        want = np.trapz(v[i:j + 1], w[i:j + 1])          # exactly the samples inside [lo, hi]
        got = s.integrate(lo, hi, method='trapz')
        one = s.integrate(w[i] - 1e-9, w[i] + 1e-9, method='trapz')      # a single sample inside: nothing to integrate
        a.check(bool(abs(got - want) <= 1e-12 * max(1.0, abs(want)) and one == 0), {'bounds_between_samples': t, 'got': float(got), 'expected': float(want)})

for unit, scale in (('m', 1e-9), ('um', 1e-3), ('angstrom', 10.0)):
    # the same closed-range selection whatever the unit the grid is stored in (a metre-scale grid has spacings far
    # below numpy's default absolute tolerances)
    for t in range(10):
        with a.case({'unit': unit, 'case': t}):
            s = rand_spectrum()
            w, v = s.wave.copy() * scale, s.value.copy()
            su = Spectrum(w.copy(), v.copy(), unit)
            i, j = sorted(rng.choice(np.arange(1, w.size - 1), size=2, replace=False))
            lo, hi = w[i] - 0.37 * (w[i] - w[i - 1]), w[j] + 0.41 * (w[j + 1] - w[j])
            want = np.trapz(v[i:j + 1], w[i:j + 1])
            got = su.integrate(lo, hi, method='trapz')
            at_samples = su.integrate(w[i], w[j], method='trapz')
            a.check(bool(abs(got - want) <= 1e-12 * max(abs(want), 1e-300) + 1e-30 and abs(at_samples - want) <= 1e-12 * abs(want) + 1e-30),
                    {'unit': unit, 'case': t, 'got': float(got), 'expected': float(want)})

d = Bounded('C15::crop_closed_range_at_sample_points', 'all pairs of sample wavelengths (i <= j) of 3 random spectra as crop limits, plus limits just inside / outside a sample',
            'crop keeps exactly the samples inside the closed requested range: a sample equal to either limit is kept')
for t in range(3):
    base = rand_spectrum(n=6)
    w0, v0 = base.wave.copy(), base.value.copy()
    for i, j in itertools.combinations_with_replacement(range(w0.size), 2):
        for eps_lo, eps_hi in ((0, 0), (-1e-9, 1e-9), (1e-9, -1e-9)):
            lo, hi = w0[i] + eps_lo, w0[j] + eps_hi
            keep = (w0 >= lo) & (w0 <= hi)
            if keep.sum() < 1:
                continue
            with d.case({'spectrum': t, 'lo': float(lo), 'hi': float(hi)}):
                s = Spectrum(w0.copy(), v0.copy(), 'nm')
                s.crop(lo, hi)
                d.check(bool(np.array_equal(s.wave, w0[keep]) and np.array_equal(s.value, v0[keep])),
                        {'spectrum': t, 'lo': float(lo), 'hi': float(hi), 'kept': np.asarray(s.wave).tolist(), 'expected': w0[keep].tolist()})
emit([a, b, c, d])
