import itertools
import sys

import numpy as np
import lentil
from common import Bounded, emit

tier, seed = sys.argv[1], int(sys.argv[2])
rng = np.random.default_rng(seed)


def masks():
    yield 'circle', lentil.circle((40, 40), 15, antialias=False)
    yield 'offcentre', lentil.circle((41, 48), 13, shift=(3, -5), antialias=False)
    yield 'hexagon', lentil.hexagon((44, 44), 17, antialias=False)
    yield 'antialiased', lentil.circle((40, 40), 15)
    s = lentil.hex_segments(1, 7, 1, antialias=False)
    yield 'segmented', s.sum(axis=0)


a = Bounded('C12::fit_compose_remove', 'masks: circle, off-centre, hexagon, antialiased, 7-segment; mode sets [4] [2,3] [7,4,11] [3,1,2] 1..11; both normalisations; default and caller coordinates',
            'fit(compose(c)) = c for every subset and ordering; remove subtracts exactly the least-squares component (residual coefficients vanish, idempotent, pure-mode OPD -> 0)')
for (name, m), normalize, custom in itertools.product(masks(), (True, False), (False, True)):
    rho = theta = None
    if custom:
        rho, theta = lentil.zernike_coordinates(m, shift=(1.5, -0.5))
    for modes in ([4], [2, 3], [7, 4, 11], [3, 1, 2], list(range(1, 12))):
        with a.case({'mask': name, 'modes': modes, 'normalize': normalize, 'custom': custom}):
            c = rng.normal(size=len(modes))
            basis = lentil.zernike_basis(m, modes, normalize=normalize, rho=rho, theta=theta)
            # the surface is built mode by mode, so coefficient k belongs to modes[k] whatever the basis does
            single = [lentil.zernike(m, j, normalize=normalize, rho=rho, theta=theta) for j in modes]
            opd = sum(ck * zk for ck, zk in zip(c, single))
            got = lentil.zernike_fit(opd, m, modes, normalize=normalize, rho=rho, theta=theta)
            ok = np.allclose(got, c, atol=1e-9) and np.shape(basis) == np.shape(single) and np.allclose(basis, single, atol=1e-12)
            if normalize:
                other = opd + 0.3 * lentil.zernike(m, 6 if 6 not in modes else 13, rho=rho, theta=theta)
                r1 = lentil.zernike_remove(other, m, modes, rho=rho, theta=theta)
                r2 = lentil.zernike_remove(r1, m, modes, rho=rho, theta=theta)
                ok = ok and np.allclose(lentil.zernike_fit(r1, m, modes, rho=rho, theta=theta), 0, atol=1e-9)
                ok = ok and np.allclose(r1, r2, atol=1e-9)
                ok = ok and np.allclose(lentil.zernike_remove(opd, m, modes, rho=rho, theta=theta), 0, atol=1e-9)
                # least-squares reference on the support
                sup = m != 0
                A = np.stack([lentil.zernike(m, j, rho=rho, theta=theta)[sup] for j in modes], axis=1)
                sol = np.linalg.lstsq(A, other[sup], rcond=None)[0]
                ok = ok and np.allclose(r1[sup], other[sup] - A @ sol, atol=1e-9)
            a.check(ok, {'mask': name, 'modes': modes, 'normalize': normalize, 'custom': custom})
b = Bounded('C12::compose_index', 'coefficient vectors of length 1..8 on two masks', 'coefficient k of zernike_compose multiplies Noll mode k+1')
for (name, m), n in itertools.product(list(masks())[:2], range(1, 9)):
    c = rng.normal(size=n)
    ref = sum(ck * lentil.zernike(m, k + 1) for k, ck in enumerate(c))
    b.check(np.allclose(lentil.zernike_compose(m, c), ref), {'mask': name, 'n': n})

c = Bounded('C12::fit_depends_on_the_mask_given', 'pairs of masks with the same array shape and the same number of pixels (shifted disks, shifted hexagons), fitted one after the other with the same modes',
            'zernike_fit / zernike_remove use the mask they are given: results do not depend on earlier calls')
for kind, modes, normalize in itertools.product(('disk', 'hexagon'), ([2, 3, 4], [4, 11]), (True, False)):
    with c.case({'masks': kind, 'modes': modes, 'normalize': normalize}):
        mk = (lambda sh: lentil.circle((40, 44), 11, shift=sh, antialias=False)) if kind == 'disk' else (lambda sh: lentil.hexagon((40, 44), 12, shift=sh, antialias=False))
        m1, m2 = mk((0, 0)), mk((5, -7))
        ok = m1.shape == m2.shape and np.count_nonzero(m1) == np.count_nonzero(m2)
        for m in (m1, m2, m1):
            coef = rng.normal(size=len(modes))
            opd = sum(ck * lentil.zernike(m, j, normalize=normalize) for ck, j in zip(coef, modes))
            got = lentil.zernike_fit(opd, m, modes, normalize=normalize)
            ok = ok and np.allclose(got, coef, atol=1e-9)
            if normalize:
                ok = ok and np.allclose(lentil.zernike_remove(opd, m, modes), 0, atol=1e-9)
        c.check(bool(ok), {'masks': kind, 'modes': modes, 'normalize': normalize})
emit([a, b, c])
