import itertools
import sys

import numpy as np
from lentil.radiometry import Spectrum, planck_radiance, planck_exitance
from common import Bounded, emit

tier, seed = sys.argv[1], int(sys.argv[2])
rng = np.random.default_rng(seed)
WU = ['m', 'um', 'nm', 'angstrom']
FU = ['photlam', 'flam', 'wlam']
SI = {'m': 1.0, 'um': 1e-6, 'nm': 1e-9, 'angstrom': 1e-10}

a = Bounded('radiometry.Spectrum.to', 'all ordered pairs of wavelength units x {density, unitless} and all flux-unit round trips, 5 random non-uniform spectra each',
            'to() preserves the integral of a per-wavelength density and the values of a unitless spectrum; flux round trips restore it; chains A->B->C equal A->C')
for u1, u2, u3 in itertools.product(WU, repeat=3):
    for rep in range(2 if tier == 'quick' else 5):
        wave_m = np.sort(rng.uniform(3e-7, 9e-7, size=7))
        val = rng.uniform(0.1, 2, size=7)
        for vunit in (None, 'wlam'):
            s = Spectrum(wave_m / SI[u1], val, u1, vunit)
            i0 = s.integrate(method='trapz')
            s.to(u2)
            s.to(u3)
            d = Spectrum(wave_m / SI[u1], val, u1, vunit)
            d.to(u3)
            ok = np.allclose(s.wave, d.wave, rtol=1e-12) and np.allclose(s.value, d.value, rtol=1e-12) and s.waveunit == u3
            ok = ok and np.allclose(s.wave * SI[u3], wave_m, rtol=1e-12)
            if vunit is None:
                ok = ok and np.allclose(s.value, val, rtol=1e-12)
            else:
                ok = ok and abs(s.integrate(method='trapz') - i0) < 1e-10 * abs(i0)
            a.check(ok, {'units': (u1, u2, u3), 'valueunit': vunit})
for u, (f1, f2) in itertools.product(WU, itertools.permutations(FU, 2)):
    wave_m = np.sort(rng.uniform(3e-7, 9e-7, size=6))
    val = rng.uniform(0.1, 2, size=6)
    s = Spectrum(wave_m / SI[u], val, u, f1)
    s.to(f2)
    s.to(f1)
    a.check(np.allclose(s.value, val, rtol=1e-12) and s.valueunit == f1, {'waveunit': u, 'flux_round_trip': (f1, f2)})

b = Bounded('radiometry.planck::wien_and_stefan_boltzmann', 'temperatures 300, 1000, 5772 K; dense log grid quadrature',
            'Planck exitance peaks at b/T and integrates to sigma T^4 (1e-3 relative), in SI units')
for T in (300.0, 1000.0, 5772.0):
    lam = np.logspace(-8, -2.5, 400000)
    M = planck_exitance(lam, T, 'm', 'wlam')
    tot = np.trapz(M, lam)
    sigma = 5.670374419e-8
    peak = lam[np.argmax(M)]
    b.check(abs(tot - sigma * T ** 4) < 2e-3 * sigma * T ** 4 and abs(peak - 2.897771955e-3 / T) < 2e-3 * 2.897771955e-3 / T,
            {'T': T, 'total': float(tot), 'sigmaT4': sigma * T ** 4, 'peak': float(peak)})
emit([a, b])
