"""Replay of counter-models against the real code (DESIGN 4).

A failed obligation comes with a z3 model.  The arguments built by the contract's `params` are
evaluated under that model to concrete Python / numpy values, the *real* function is run under
/venv/bin/python, and the contract's outcome checks are generated again with the inputs pinned to
the model and the symbolic body outcome replaced by the native one.  If one of those obligations
fails (reals from native floats are compared with relative tolerance 1e-9) the violation is
confirmed on the real code."""
import json
import os
import sys
import subprocess
from fractions import Fraction

import z3

from . import sym as S
from .values import Arr, Obj, PyList, PyDict, Seq, Str
from .interp import Ctx
from . import prove

NATIVE_PY = os.environ.get('LVC_NATIVE_PY', '/venv/bin/python')
MAX_ELEMS = 4000


class TooLarge(Exception):
    pass


DIVERSIFY = None      # a random.Random during cross-check sampling
_DIVERSE = {}
PROTECTED = set()     # symbols constrained by quantified axioms (class invariants): never diversified


def mval(m, t):
    """Value of a scalar term under the model (with completion)."""
    t = S.num(t) if not isinstance(t, (S.Cx, S.SumT)) else t
    if isinstance(t, S.Cx):
        return S.Cx(mval(m, t.re), mval(m, t.im))
    if isinstance(t, S.SumT):
        raise TooLarge('sum term in input')
    if not S.is_z3(t):
        return t
    if DIVERSIFY is not None and z3.is_real(t) and z3.is_app(t) and t.decl().kind() == z3.Z3_OP_UNINTERPRETED \
            and t.decl().name() not in PROTECTED:
        # cross-check sampling: a real-valued input element the model leaves open (a don't-care: the partial
        # model satisfies the path condition for every completion) gets a small non-zero value instead of 0
        v0 = m.eval(t, model_completion=False)
        if not (z3.is_rational_value(v0) or z3.is_algebraic_value(v0)):
            key = t.get_id()
            if key not in _DIVERSE:
                _DIVERSE[key] = (t, Fraction(DIVERSIFY.choice([-7, -5, -3, -2, -1, 1, 2, 3, 5, 6, 9]), 4))
                if os.environ.get('LVC_DEBUG_REPLAY'):
                    print('DIVERSIFY', t, _DIVERSE[key][1], file=sys.stderr)
            return _DIVERSE[key][1]
    v = m.eval(t, model_completion=True)
    v = z3.simplify(v)
    if z3.is_int_value(v):
        return v.as_long()
    if z3.is_rational_value(v):
        return Fraction(v.numerator_as_long(), v.denominator_as_long())
    if z3.is_true(v):
        return True
    if z3.is_false(v):
        return False
    if z3.is_algebraic_value(v):
        a = v.approx(20)
        return Fraction(a.numerator_as_long(), a.denominator_as_long())
    raise TooLarge('cannot evaluate %s' % v)


def enc_scalar(v):
    if v is None or isinstance(v, (bool, int, str)):
        return v
    if isinstance(v, Fraction):
        return {'k': 'f', 'n': v.numerator, 'd': v.denominator}
    if isinstance(v, S.Cx):
        return {'k': 'c', 're': enc_scalar(S.frac(v.re) if not isinstance(v.re, Fraction) else v.re),
                'im': enc_scalar(S.frac(v.im) if not isinstance(v.im, Fraction) else v.im)}
    if isinstance(v, S.Inf):
        return {'k': 'inf'}
    raise TooLarge('scalar %r' % (v,))


def concretize(m, v, pins, budget):
    """-> JSON-able encoding of value v under model m; appends (term == value) pins."""
    if v is None or isinstance(v, (bool, str)) or v is Ellipsis:
        return {'k': 'e'} if v is Ellipsis else v
    if isinstance(v, Str):
        return '<str>'
    if S.is_scalar(v) or isinstance(v, S.Inf):
        if isinstance(v, S.Inf):
            return {'k': 'inf'}
        c = mval(m, v)
        pin(pins, v, c)
        return enc_scalar(c if not isinstance(c, Fraction) or True else c)
    if isinstance(v, tuple):
        return {'k': 't', 'v': [concretize(m, x, pins, budget) for x in v]}
    if isinstance(v, PyList):
        return {'k': 'l', 'v': [concretize(m, x, pins, budget) for x in v.items]}
    if isinstance(v, PyDict):
        return {'k': 'd', 'v': {str(k): concretize(m, x, pins, budget) for k, x in v.d.items()}}
    if isinstance(v, slice):
        return {'k': 's', 'v': [concretize(m, x, pins, budget) for x in (v.start, v.stop, v.step)]}
    if isinstance(v, Arr):
        shape = [mval(m, d) for d in v.shape]
        for d, c in zip(v.shape, shape):
            pin(pins, d, c)
        n = 1
        for d in shape:
            n *= max(d, 0)
        budget[0] -= n
        if budget[0] < 0:
            raise TooLarge('array too large for replay')
        import itertools
        flat = []
        for idx in itertools.product(*[range(d) for d in shape]):
            t = v.at(idx)
            c = mval(m, t)
            pin(pins, t, c)
            if v.dtype == 'complex':
                c = S.cx(c)
            flat.append(enc_scalar(c))
        return {'k': 'a', 'dtype': v.dtype, 'shape': shape, 'v': flat}
    if isinstance(v, Obj):
        return {'k': 'o', 'cls': v.cls.qualname,
                'attrs': {k: concretize(m, x, pins, budget) for k, x in v.attrs.items()}}
    if isinstance(v, Seq):
        n = mval(m, v.length)
        pin(pins, v.length, n)
        if n > 50:
            raise TooLarge('sequence too long')
        return {'k': 'l', 'v': [concretize(m, v.elem(k), pins, budget) for k in range(n)]}
    raise TooLarge('value %r' % (type(v).__name__,))


def pin(pins, term, value):
    if isinstance(term, S.Cx):
        value = S.cx(value)
        pin(pins, term.re, value.re)
        pin(pins, term.im, value.im)
        return
    t = S.num(term)
    if S.is_z3(t):
        pins.append(t == S.z(value) if not z3.is_bool(t) else t == z3.BoolVal(bool(value)))


def decode(world, x):
    """Native outcome -> value domain (concrete)."""
    if x is None or isinstance(x, (bool, int, str)):
        return x
    k = x['k']
    if k == 'f':
        if 'v' in x:
            return Fraction(*float.fromhex(x['v']).as_integer_ratio())
        return Fraction(x['n'], x['d'])
    if k == 'c':
        return S.Cx(decode(world, x['re']), decode(world, x['im']))
    if k == 't':
        return tuple(decode(world, v) for v in x['v'])
    if k == 'l':
        return PyList([decode(world, v) for v in x['v']])
    if k == 'd':
        return PyDict({kk: decode(world, v) for kk, v in x['v'].items()})
    if k == 's':
        return slice(*[decode(world, v) for v in x['v']])
    if k == 'e':
        return Ellipsis
    if k == 'a':
        vals = [decode(world, v) for v in x['v']]
        shape = tuple(x['shape'])
        dt = x['dtype']
        strides = []
        n = 1
        for d in reversed(shape):
            strides.append(n)
            n *= d
        strides = list(reversed(strides))
        from .values import select

        def fn(idx, vals=vals, strides=strides, dt=dt):
            flat = 0
            for i, s in zip(idx, strides):
                flat = S.add(flat, S.mul(i, s))
            if not vals:
                return S.Cx(0, 0) if dt == 'complex' else 0
            return select(vals, flat)
        return Arr.from_fn(shape, dt, fn)
    if k == 'o':
        try:
            cls = world.repo.klass(x['cls'])
        except Exception:
            return Opaque(x['cls'])
        return Obj(cls, {kk: decode(world, v) for kk, v in x['attrs'].items()})
    if k == 'inf':
        return S.INF
    if k == 'nonfinite':
        return Opaque('nonfinite ' + x['v'])
    return Opaque(str(x.get('v')))


class Opaque:
    def __init__(self, what):
        self.what = what

    def __repr__(self):
        return '<opaque %s>' % self.what


def run_native(function, args, order, repo_root):
    req = json.dumps({'function': function, 'args': args, 'order': order})
    env = dict(os.environ)
    env['PYTHONPATH'] = repo_root
    runner = os.path.join(os.path.dirname(os.path.dirname(os.path.abspath(__file__))), 'native', 'replay_runner.py')
    p = subprocess.run([NATIVE_PY, '-W', 'ignore', runner], input=req, capture_output=True, text=True, env=env,
                       timeout=120)
    if p.returncode != 0:
        raise RuntimeError('native runner failed: %s' % p.stderr[-500:])
    return json.loads(p.stdout)


_MATH = None


def _math_table():
    global _MATH
    if _MATH is None:
        import math
        _MATH = {
            'f_cos': lambda x: math.cos(x), 'f_sin': lambda x: math.sin(x), 'f_exp': lambda x: math.exp(x),
            'f_sqrt': lambda x: math.sqrt(x) if x >= 0 else None,
            'f_sinc': lambda x: 1.0 if x == 0 else math.sin(math.pi * x) / (math.pi * x),
            'f_pow': lambda x, y: math.pow(x, y),
        }
    return _MATH


def pin_functions(ob):
    """In replay every input symbol is pinned; give the uninterpreted functions (cos, sin, exp, sqrt,
    sinc, pow) their real values at the arguments that occur, innermost first."""
    table = _math_table()
    pins = []
    for _ in range(6):
        s = z3.Solver()
        s.set('timeout', 5000)
        for p in ob.pc + pins:
            s.add(p)
        if s.check() != z3.sat:
            return pins
        m = s.model()
        apps = {}

        def walk(e, seen):
            if e.get_id() in seen:
                return
            seen.add(e.get_id())
            if z3.is_app(e):
                for ch in e.children():
                    walk(ch, seen)
                if e.num_args() > 0 and e.decl().name() in table and e.decl().kind() == z3.Z3_OP_UNINTERPRETED:
                    apps[e.get_id()] = e
        seen = set()
        for f in ob.pc + [ob.formula]:
            walk(f, seen)
        new = 0
        have = set(str(p.arg(0)) for p in pins)
        for e in apps.values():
            if str(e) in have:
                continue
            args = []
            okay = True
            for a in e.children():
                # the argument must not itself contain an unpinned function application
                v = z3.simplify(m.eval(a, model_completion=True))
                if z3.is_rational_value(v):
                    args.append(v.numerator_as_long() / v.denominator_as_long())
                elif z3.is_int_value(v):
                    args.append(float(v.as_long()))
                else:
                    okay = False
            if not okay:
                continue
            inner = [c for a in e.children() for c in _uf_children(a, table)]
            if any(str(c) not in have for c in inner):
                continue
            try:
                val = table[e.decl().name()](*args)
            except (ValueError, OverflowError):
                val = None
            if val is None:
                continue
            pins.append(e == S.z(Fraction(*float(val).as_integer_ratio())))
            new += 1
        if new == 0:
            break
    return pins


def discharge_pinned(ob, timeout_ms=10000, rounds=80):
    """Decide a replay obligation whose inputs are pinned but which still mentions the uninterpreted math
    functions (cos, sin, exp, sqrt, sinc, pow), possibly at arguments that depend on skolem indices.
    Counterexample-guided: solve; evaluate every math application under the model; wherever the model's
    value differs from the real function at the model's (constant) argument values, add the true fact
    f(constants) = value and solve again.  Only facts about constant arguments are ever added, so a 'failed'
    verdict always carries a model in which every math function has exactly its (double precision) value."""
    import time as _t
    from . import prove
    table = _math_table()
    apps = {}

    def walk(e, seen):
        if e.get_id() in seen:
            return
        seen.add(e.get_id())
        if z3.is_quantifier(e):
            walk(e.body(), seen)
            return
        if z3.is_app(e):
            for ch in e.children():
                walk(ch, seen)
            if e.num_args() > 0 and e.decl().name() in table and e.decl().kind() == z3.Z3_OP_UNINTERPRETED:
                apps[e.get_id()] = e
    seen = set()
    for f in ob.pc + [ob.formula]:
        walk(f, seen)
    if not apps:
        return prove.discharge(ob, timeout_ms)
    t0 = _t.time()
    facts, have = [], set()

    def num(v):
        v = z3.simplify(v)
        if z3.is_rational_value(v):
            return Fraction(v.numerator_as_long(), v.denominator_as_long())
        if z3.is_int_value(v):
            return Fraction(v.as_long())
        if z3.is_algebraic_value(v):
            return v.approx(20).as_fraction()
        return None
    for _ in range(rounds):
        s = z3.Solver()
        s.set('timeout', timeout_ms)
        for p_ in ob.pc + facts:
            s.add(p_)
        s.add(z3.Not(ob.formula))
        r = s.check()
        if r == z3.unsat:
            return prove.Verdict(ob, 'discharged', solver='z3:replay-cegar', time_s=_t.time() - t0)
        if r != z3.sat:
            return prove.Verdict(ob, 'undecided', solver='z3:replay-cegar', time_s=_t.time() - t0, reason='unknown')
        m = s.model()
        new = 0
        for e in apps.values():
            args = [num(m.eval(a, model_completion=True)) for a in e.children()]
            if any(a is None for a in args):
                continue
            try:
                val = table[e.decl().name()](*[float(a) for a in args])
            except (ValueError, OverflowError, ZeroDivisionError):
                val = None
            if val is None:
                continue
            cur = num(m.eval(e, model_completion=True))
            want = Fraction(*float(val).as_integer_ratio())
            if cur is not None and cur == want:
                continue        # (exactly: a tolerance here would hand the solver slack to exploit)
            key = (e.decl().name(), tuple(args))
            if key in have:
                continue
            have.add(key)
            facts.append(e.decl()(*[z3.RealVal(str(a)) for a in args]) == z3.RealVal(str(want)))
            new += 1
        if new == 0:
            v = prove.Verdict(ob, 'failed', solver='z3:replay-cegar', time_s=_t.time() - t0)
            v.z3model = m
            v.model = {str(d): str(m[d]) for d in m.decls() if d.arity() == 0}
            return v
    return prove.Verdict(ob, 'undecided', solver='z3:replay-cegar', time_s=_t.time() - t0, reason='math-function refinement budget')


def _uf_children(e, table):
    out = []
    stack = [e]
    while stack:
        x = stack.pop()
        if z3.is_app(x):
            if x.num_args() > 0 and x.decl().name() in table and x.decl().kind() == z3.Z3_OP_UNINTERPRETED:
                out.append(x)
            stack.extend(x.children())
    return out


def mentions(e, name):
    stack = [e]
    seen = set()
    while stack:
        x = stack.pop()
        if x.get_id() in seen:
            continue
        seen.add(x.get_id())
        if z3.is_app(x):
            if x.decl().name() == name and x.decl().kind() == z3.Z3_OP_UNINTERPRETED:
                return True
            stack.extend(x.children())
        elif z3.is_quantifier(x):
            stack.append(x.body())
    return False


def strip_sqrt_axioms(pc):
    """sqrt is pinned to a float value in replay; its exact axiom s*s == x would then be unsatisfiable."""
    return [p for p in pc if not (mentions(p, 'f_sqrt') and not _is_pin(p))]


def _is_pin(p):
    return z3.is_eq(p) and z3.is_app(p.arg(0)) and p.arg(0).decl().kind() == z3.Z3_OP_UNINTERPRETED \
        and (z3.is_rational_value(p.arg(1)) or z3.is_int_value(p.arg(1)))


def run_native_script(src, repo_root):
    """Run a small self-contained program natively (PYTHONPATH=<repo>); it prints one JSON object."""
    env = dict(os.environ)
    env['PYTHONPATH'] = repo_root
    p = subprocess.run([NATIVE_PY, '-W', 'ignore', '-c', src], capture_output=True, text=True, env=env, timeout=120)
    out = p.stdout.strip().splitlines()
    try:
        return json.loads(out[-1]) if out else {'error': p.stderr[-400:]}
    except ValueError:
        return {'error': (p.stdout + p.stderr)[-400:]}


def try_replay(world, kind, name, prop_id, ob, verdict, pr):
    if kind == 'lemma':
        # a client lemma may supply a native program that re-enacts the failing clause on the real code
        import importlib
        mod = importlib.import_module('props.' + prop_id)
        lemma = dict(mod.LEMMAS).get(name)
        gen = getattr(lemma, 'native_replay', None)
        if gen is None:
            return {'status': 'not-applicable', 'detail': 'client lemma without a native re-enactment'}
        src = gen(ob.name, verdict.model or {})
        if src is None:
            return {'status': 'not-applicable', 'detail': 'no native re-enactment for this clause'}
        res = run_native_script(src, world.repo.root)
        return {'status': 'confirmed' if res.get('violated') else 'not-confirmed', 'program': src, 'native_outcome': res}
    if kind != 'function' or pr.replay_state is None or verdict.z3model is None:
        return {'status': 'not-applicable', 'detail': 'no model'}
    contract = world.contracts[name]
    res = replay_with_model(world, contract, pr.replay_state, ob.pc, verdict.z3model)
    if res.get('status') == 'confirmed':
        res['same_obligation'] = any(b['obligation'] == ob.name for b in res['failed_on_real_code'])
    return res


def replay_with_model(world, contract, replay_state, pc, m, axioms=None):
    func = world.repo.function(contract.qualname)
    env0, expected = replay_state
    pins = []
    try:
        budget = [MAX_ELEMS]
        args = {k: concretize(m, v, pins, budget) for k, v in env0.items()}
    except TooLarge as e:
        return {'status': 'not-attempted', 'detail': str(e)}
    if axioms:
        # the quantified class invariants are not part of the path condition the sample came from: an input
        # that violates them is not an input of the contract
        s_ = z3.Solver()
        s_.set('timeout', 5000)
        for p_ in list(pc) + pins + list(axioms):
            s_.add(p_)
        if s_.check() == z3.unsat:
            return {'status': 'invalid-input', 'detail': 'sampled input violates a class invariant / axiom of the path'}
    order = prove.param_names(func)
    try:
        nat = run_native(contract.qualname, args, order, world.repo.root)
    except Exception as e:
        return {'status': 'error', 'detail': str(e)}
    # rebuild the outcome in the value domain
    if nat['kind'] == 'raise':
        out = prove.Outcome('raise', exc=nat['exc'])
        out.msg = nat.get('msg')
    else:
        out = prove.Outcome('return', decode(world, nat['value']))
    env = dict(env0)
    for k in order:
        if k in nat.get('changed', []):
            env[k] = decode(world, nat['after'][k])
        if nat['kind'] == 'return' and k in nat.get('aliases', []):
            out.value = env[k]
    if func.name == '__init__' and func.cls is not None:
        env[order[0]] = decode(world, nat['after'][order[0]])
    out.env = env
    ctx = Ctx(world, [])
    ctx.pc = strip_sqrt_axioms([p for p in pc]) + pins
    ctx.counter = {'replay': 1}
    ctx.expand_sums = True
    ctx.replaying = True
    ctx.events = [('warning', w) for w in nat.get('warnings', [])]
    writes = [('param:' + k, 'native run changed this argument') for k in nat.get('changed', [])
              if not (func.name == '__init__' and k == order[0])]
    from .nplib import PI
    import math
    ctx.pc.append(PI == S.z(Fraction(*math.pi.as_integer_ratio())))
    S.TOL = Fraction(1, 10 ** 9)
    try:
        ctx.verifying = contract.qualname
        prove.check_outcome(ctx, contract, env0, env, expected, out, writes)
        bad = []
        for o2 in ctx.obligations:
            o2.pc = strip_sqrt_axioms(o2.pc)
            v2 = discharge_pinned(o2, 10000)
            if v2.status == 'failed':
                if os.environ.get('LVC_DEBUG_REPLAY'):
                    print('REPLAY-FAIL', o2.name, '\n  formula:', z3.simplify(o2.formula), '\n  pins:', [str(p)[:100] for p in o2.pc[-12:]], file=sys.stderr)
                bad.append({'obligation': o2.name, 'skolems': {k: v for k, v in (v2.model or {}).items()
                                                               if not any(k == str(p.arg(0)) for p in pins
                                                                          if p.num_args() == 2)}})
    except Exception as e:
        return {'status': 'error', 'detail': 'check phase: %s: %s' % (type(e).__name__, e), 'inputs': args,
                'native': {k: nat[k] for k in ('kind', 'exc', 'msg') if k in nat}}
    finally:
        S.TOL = None
    res = {'inputs': args, 'native_outcome': {k: nat.get(k) for k in ('kind', 'exc', 'msg', 'value', 'changed')},
           'function': contract.qualname}
    if bad:
        res['status'] = 'confirmed'
        res['failed_on_real_code'] = bad[:10]
    else:
        res['status'] = 'not-confirmed'
    return res
