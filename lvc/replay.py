"""Replay of counter-models against the real code (DESIGN 4).  Filled in incrementally."""


def try_replay(world, kind, name, prop_id, ob, verdict):
    return {'status': 'not-attempted', 'detail': 'no replay builder for %s' % name}
