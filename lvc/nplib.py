"""Library contracts: numpy / builtins / stdlib functions as models over the value domain.

Every function here is part of the trusted base; its name is recorded in ctx.assumptions when
used so that evidence files list exactly what a proof relied on.  `exact` models compute the
mathematical result; `abstract` ones introduce uninterpreted symbols with stated axioms.
"""
from fractions import Fraction
import itertools

import z3

from . import sym as S
from .sym import Unsupported
from .values import Arr, Cell, Ax, PyList, PyDict, Obj, Str, Seq, select
from . import arrops as A
from .interp import Builtin, ClassRef, ModuleRef, Raised, IterList, DictKeys, BoundMethod, type_name
from .repo import FuncInfo, ClassInfo

LIB = {}
PI = z3.Real('pi')
PI_AXIOMS = [PI > z3.RealVal('3.14159'), PI < z3.RealVal('3.14160')]


def lib(name, kind='exact'):
    def deco(fn):
        def wrapped(ctx, *a, **k):
            ctx.assumptions.add('lib[%s]:%s' % (kind, name))
            return fn(ctx, *a, **k)
        LIB[name] = Builtin(name, wrapped)
        return fn
    return deco


def alias(new, old):
    LIB[new] = LIB[old]


def arr(ctx, v, dtype=None):
    return A.as_array(ctx, v, dtype)


def items_of(ctx, v):
    return ctx.world.interp.iterate(ctx, v)


# ----------------------------------------------------------------------------------------
# builtins

@lib('builtins.len')
def _len(ctx, v):
    if isinstance(v, (tuple, str, frozenset)):
        return len(v)
    if isinstance(v, PyList):
        return len(v.items)
    if isinstance(v, PyDict):
        return len(v.d)
    if isinstance(v, Arr):
        if v.ndim == 0:
            raise Raised('TypeError', 'len() of unsized object')
        return v.shape[0]
    if isinstance(v, Seq):
        return v.length
    if isinstance(v, IterList):
        return len(v.items)
    raise Raised('TypeError', 'object of type %s has no len()' % type_name(v))


@lib('builtins.int')
def _int(ctx, v=0):
    if isinstance(v, Arr):
        if not ctx.known(S.eq(v.size(), 1)):
            raise Raised('TypeError', 'only size-1 arrays can be converted')
        v = v.at(tuple(0 for _ in v.shape))
    if isinstance(v, S.Cx):
        raise Raised('TypeError', "can't convert complex to int")
    if isinstance(v, str):
        return int(v)
    return S.fix_(S.num(v))


@lib('builtins.float')
def _float(ctx, v=0):
    if isinstance(v, Arr):
        v = v.at(tuple(0 for _ in v.shape))
    return S.to_real(S.num(v))


@lib('builtins.bool')
def _bool(ctx, v=False):
    return ctx.world.interp.truthy(ctx, v)


@lib('builtins.abs')
def _abs(ctx, v):
    if isinstance(v, Arr):
        return np_abs(ctx, v)
    return scalar_abs(ctx, v)


def scalar_abs(ctx, v):
    if isinstance(v, S.Cx):
        if v.abs_hint is not None:
            ctx.assumptions.add('identity:|z**2| = |z|**2')
            return v.abs_hint
        return sqrt_scalar(ctx, S.cabs2(v))
    return S.abs_(v)


@lib('builtins.max')
def _max(ctx, *args):
    if len(args) == 1 and isinstance(args[0], Arr) and args[0].ndim == 1 and S.is_z3(args[0].shape[0]):
        return _max_symbolic(ctx, args[0], 'max')      # max over a 1-D array of symbolic length
    xs = items_of(ctx, args[0]) if len(args) == 1 else list(args)
    xs = [A.unwrap0(x) for x in xs]
    out = xs[0]
    for x in xs[1:]:
        out = S.max_(out, x)
    return out


@lib('builtins.min')
def _min(ctx, *args):
    if len(args) == 1 and isinstance(args[0], Arr) and args[0].ndim == 1 and S.is_z3(args[0].shape[0]):
        return _max_symbolic(ctx, args[0], 'min')
    xs = items_of(ctx, args[0]) if len(args) == 1 else list(args)
    xs = [A.unwrap0(x) for x in xs]
    out = xs[0]
    for x in xs[1:]:
        out = S.min_(out, x)
    return out


@lib('builtins.round')
def _round(ctx, v, nd=None):
    if nd is not None:
        return _round_decimals(ctx, v, nd)
    return S.round_(v)


@lib('builtins.range')
def _range(ctx, *args):
    args = [A.unwrap0(a) for a in args]
    if any(S.is_z3(a) for a in args):
        return SymRange(*args)
    return range(*[int(a) for a in args])


class SymRange:
    def __init__(self, *args):
        if len(args) == 1:
            self.lo, self.hi, self.step = 0, args[0], 1
        elif len(args) == 2:
            self.lo, self.hi, self.step = args[0], args[1], 1
        else:
            self.lo, self.hi, self.step = args


@lib('builtins.tuple')
def _tuple(ctx, v=()):
    return tuple(items_of(ctx, v))


@lib('builtins.list')
def _list(ctx, v=()):
    return PyList(items_of(ctx, v))


@lib('builtins.sorted')
def _sorted(ctx, v):
    xs = items_of(ctx, v)
    if any(S.is_z3(x) for x in xs):
        raise Unsupported('sorted of symbolic values')
    return PyList(sorted(xs))


@lib('builtins.enumerate')
def _enumerate(ctx, v, start=0):
    return IterList([(i + start, x) for i, x in enumerate(items_of(ctx, v))])


@lib('builtins.zip')
def _zip(ctx, *vs):
    return IterList(list(zip(*[items_of(ctx, v) for v in vs])))


@lib('builtins.all')
def _all(ctx, v):
    r = True
    for x in items_of(ctx, v):
        r = S.and_(r, ctx.world.interp.truthy(ctx, x))
    return r


@lib('builtins.any')
def _any(ctx, v):
    r = False
    for x in items_of(ctx, v):
        r = S.or_(r, ctx.world.interp.truthy(ctx, x))
    return r


@lib('builtins.sum')
def _sum(ctx, v, start=0):
    out = start
    for x in items_of(ctx, v):
        out = ctx.world.interp.binop(ctx, 'Add', out, x)
    return out


@lib('builtins.isinstance')
def _isinstance(ctx, v, t):
    ts = list(t) if isinstance(t, tuple) else [t]
    for x in ts:
        if _isinst1(ctx, v, x):
            return True
    return False


def _isinst1(ctx, v, t):
    if isinstance(t, ClassInfo):
        return isinstance(v, Obj) and t in v.cls.mro(ctx.world.repo)
    if isinstance(t, (ClassRef, Builtin)):
        name = t.name.split('.')[-1]
        tn = type_name(v)
        if name == 'int':
            return tn in ('int', 'bool')
        if name == 'float':
            return tn == 'float'
        if name == 'ndarray':
            return tn == 'ndarray'
        if name in ('list', 'tuple', 'str', 'dict', 'bool', 'complex', 'slice'):
            return tn == name
        raise Unsupported('isinstance %s' % name)
    raise Unsupported('isinstance with %r' % (t,))


@lib('builtins.hash')
def _hash(ctx, v):
    if isinstance(v, str):
        return ('hash', v)
    raise Unsupported('hash')


@lib('builtins.type')
def _type(ctx, v):
    if isinstance(v, Obj):
        return v.cls
    return ClassRef(type_name(v))


@lib('builtins.slice')
def _slice(ctx, *a):
    return slice(*a)


@lib('builtins.print')
def _print(ctx, *a, **k):
    return None


for _n in ('ValueError', 'TypeError', 'NotImplementedError', 'IndexError', 'AttributeError',
           'FloatingPointError', 'DeprecationWarning', 'AssertionError', 'KeyError', 'Exception'):
    LIB['builtins.' + _n] = ClassRef(_n)
LIB['builtins.Ellipsis'] = Ellipsis
LIB['builtins.complex'] = ClassRef('complex')
LIB['builtins.str'] = ClassRef('str')
LIB['builtins.dict'] = ClassRef('dict')


@lib('new:complex')
def _complex(ctx, re=0, im=0):
    return S.Cx(re, im)


@lib('sys.maxsize')
def _noop(ctx):
    return None
LIB['sys.maxsize'] = 2 ** 63 - 1


@lib('itertools.combinations')
def _combinations(ctx, v, r):
    return IterList(list(itertools.combinations(items_of(ctx, v), r)))


@lib('warnings.warn')
def _warn(ctx, *a, **k):
    ctx.events.append(('warning', a[0] if a else None))
    return None
alias('warn', 'warnings.warn')


@lib('copy.deepcopy')
def _deepcopy(ctx, v, memo=None):
    return deepcopy_value(ctx, v, {})


def deepcopy_value(ctx, v, memo):
    if id(v) in memo:
        return memo[id(v)]
    if isinstance(v, Arr):
        snap = v.snapshot()
        out = Arr.from_fn(v.shape, v.dtype, lambda idx: snap.at(idx))
    elif isinstance(v, PyList):
        out = PyList([])
        memo[id(v)] = out
        out.items = [deepcopy_value(ctx, x, memo) for x in v.items]
        return out
    elif isinstance(v, PyDict):
        out = PyDict({k: deepcopy_value(ctx, x, memo) for k, x in v.d.items()})
    elif isinstance(v, Obj):
        out = Obj(v.cls)
        memo[id(v)] = out
        out.attrs = {k: deepcopy_value(ctx, x, memo) for k, x in v.attrs.items()}
        return out
    elif isinstance(v, tuple):
        out = tuple(deepcopy_value(ctx, x, memo) for x in v)
    elif isinstance(v, dict):
        out = {k: deepcopy_value(ctx, x, memo) for k, x in v.items()}
    elif isinstance(v, Seq):
        out = v
    else:
        out = v
    memo[id(v)] = out
    return out


# list / dict / str methods
@lib('method:list.append')
def _l_append(ctx, self, x):
    self.items.append(x)
    ctx.write_event(self, 'append')


@lib('method:Seq.append')
def _seq_append(ctx, self, x):
    self.append(x)
    ctx.write_event(self, 'append')


@lib('method:list.extend')
def _l_extend(ctx, self, xs):
    self.items.extend(items_of(ctx, xs))
    ctx.write_event(self, 'extend')


@lib('method:list.pop')
def _l_pop(ctx, self, i=-1):
    if S.is_z3(i):
        raise Unsupported('pop symbolic')
    ctx.write_event(self, 'pop')
    try:
        return self.items.pop(i)
    except IndexError:
        raise Raised('IndexError')


@lib('method:list.copy')
def _l_copy(ctx, self):
    return PyList(self.items)


@lib('method:dict.keys')
def _d_keys(ctx, self):
    return DictKeys(self)


@lib('method:dict.pop')
def _d_pop(ctx, self, k, *default):
    ctx.write_event(self, 'pop')
    if k in self.d:
        return self.d.pop(k)
    if default:
        return default[0]
    raise Raised('KeyError')


@lib('method:dict.get')
def _d_get(ctx, self, k, default=None):
    return self.d.get(k, default)


@lib('method:str.lower')
def _s_lower(ctx, self):
    return self.lower()


@lib('method:str.upper')
def _s_upper(ctx, self):
    return self.upper()


@lib('method:str.strip')
def _s_strip(ctx, self, chars=None):
    return self.strip(chars)


# ----------------------------------------------------------------------------------------
# numpy: constants, types

LIB['numpy.pi'] = PI
LIB['numpy.inf'] = S.INF
LIB['numpy.newaxis'] = None
for _t in ('complex128', 'float64', 'float32', 'int64', 'int32', 'int16', 'uint8', 'uint16', 'uint32', 'uint64',
           'bool_', 'ndarray'):
    LIB['numpy.' + _t] = ClassRef(_t)


class SIndex:
    def __getitem__(self, i):
        return i


@lib('getitem:SIndex')
def _s_getitem(ctx, v, idx):
    return idx
LIB['numpy.s_'] = SIndex()


# ----------------------------------------------------------------------------------------
# numpy: construction

@lib('numpy.asarray')
def np_asarray(ctx, v, dtype=None):
    if isinstance(v, A.Gather) and dtype is None:
        return v
    return arr(ctx, v, A.dtype_from(ctx, dtype))


@lib('numpy.array')
def np_array(ctx, v, dtype=None, copy=True):
    a = arr(ctx, v, A.dtype_from(ctx, dtype))
    if isinstance(v, Arr) and a is v:
        return np_copy(ctx, v)
    return a


@lib('numpy.copy')
def np_copy(ctx, v):
    a = arr(ctx, v)
    snap = a.snapshot()
    return Arr.from_fn(a.shape, a.dtype, lambda idx: snap.at(idx))
alias('method:ndarray.copy', 'numpy.copy')


def shape_arg(ctx, shape):
    if isinstance(shape, Arr):
        if shape.ndim == 0:
            return (shape.at(()),)
        return tuple(shape.at((i,)) for i in range(shape.shape[0]))
    if S.is_int(shape):
        return (shape,)
    if isinstance(shape, (tuple, PyList)):
        return tuple(A.unwrap0(x) for x in items_of(ctx, shape))
    raise Unsupported('shape argument %r' % (shape,))


def _const_array(ctx, shape, dtype, value):
    shape = shape_arg(ctx, shape)
    for d in shape:
        if not S.is_int(d):
            raise Raised('TypeError', 'shape must be integers')
        ctx.require('shape non-negative', S.ge(d, 0), exc='ValueError')
    dt = A.dtype_from(ctx, dtype) or 'float'
    v = A.cast_scalar(value, dt)
    return Arr.from_fn(shape, dt, lambda idx: v)


@lib('numpy.zeros')
def np_zeros(ctx, shape, dtype=None):
    return _const_array(ctx, shape, dtype, 0)


@lib('numpy.ones')
def np_ones(ctx, shape, dtype=None):
    return _const_array(ctx, shape, dtype, 1)


@lib('numpy.empty')
def np_empty(ctx, shape, dtype=None):
    shape = shape_arg(ctx, shape)
    dt = A.dtype_from(ctx, dtype) or 'float'
    return A.fresh_array(ctx, 'empty', shape, dt)


@lib('numpy.zeros_like')
def np_zeros_like(ctx, a, dtype=None, shape=None):
    a = arr(ctx, a)
    dt = A.dtype_from(ctx, dtype) or a.dtype
    shp = a.shape if shape is None else shape_arg(ctx, shape)
    return Arr.from_fn(shp, dt, lambda idx: A.cast_scalar(0, dt))


@lib('numpy.ones_like')
def np_ones_like(ctx, a, dtype=None, shape=None):
    a = arr(ctx, a)
    dt = A.dtype_from(ctx, dtype) or a.dtype
    shp = a.shape if shape is None else shape_arg(ctx, shape)
    return Arr.from_fn(shp, dt, lambda idx: A.cast_scalar(1, dt))


@lib('numpy.arange')
def np_arange(ctx, *args, dtype=None):
    args = [A.unwrap0(a) for a in args]
    if len(args) == 1:
        lo, hi, step = 0, args[0], 1
    elif len(args) == 2:
        lo, hi, step = args[0], args[1], 1
    else:
        lo, hi, step = args
    if S.is_z3(step) or step == 0:
        raise Unsupported('arange step')
    isint = S.is_int(lo) and S.is_int(hi) and S.is_int(step)
    span = S.sub(hi, lo)
    if isint and step > 0:
        n = S.max_(S.floordiv(S.add(span, step - 1), step), 0)
    elif isint and step < 0:
        n = S.max_(S.floordiv(S.add(S.neg(span), -step - 1), -step), 0)
    else:
        n = S.max_(S.ceil_(S.truediv(span, step)), 0)
    dt = 'int' if isint else 'float'
    if dtype is not None:
        dt = A.dtype_from(ctx, dtype)
    return Arr.from_fn((n,), dt, lambda idx: A.cast_scalar(S.add(lo, S.mul(step, idx[0])), dt))


@lib('numpy.linspace')
def np_linspace(ctx, start, stop, num=50):
    num = A.unwrap0(num)
    start, stop = A.unwrap0(start), A.unwrap0(stop)
    ctx.require('linspace num >= 0', S.ge(num, 0), exc='ValueError')

    def fn(idx):
        # numpy: start + i*step with step = (stop-start)/(num-1); last sample forced to stop
        i = idx[0]
        den = S.sub(num, 1)
        step = S.truediv(S.sub(stop, start), S.ite(S.eq(den, 0), 1, den)) if S.is_z3(den) else \
            (S.truediv(S.sub(stop, start), den) if den != 0 else 0)
        return S.to_real(S.add(start, S.mul(step, i)))
    return Arr.from_fn((num,), 'float', fn)


QUAD = z3.Function('quad_integral', z3.IntSort(), z3.RealSort(), z3.RealSort(), z3.RealSort())


@lib('scipy.integrate.quad', 'abstract')
def sp_quad(ctx, func, a, b, *args, **kw):
    """Abstract numerical quadrature: an uninterpreted function of (integrand identity, lower, upper limit);
    the call is recorded.  The integrand is not called."""
    calls = ctx.__dict__.setdefault('ghost_quad_calls', [])
    ident = ctx.fresh_int('integrand')
    val = QUAD(ident, S.zreal(A.unwrap0(a)), S.zreal(A.unwrap0(b)))
    calls.append({'func': func, 'a': A.unwrap0(a), 'b': A.unwrap0(b), 'value': val})
    return (val, ctx.fresh_real('quad_abserr'))


@lib('numpy.broadcast_arrays')
def np_broadcast_arrays(ctx, *arrays):
    """Each argument broadcast to the common shape (ValueError when the shapes are incompatible)."""
    items = [arr(ctx, a) for a in arrays]
    shape = A.broadcast_shapes(ctx, [a.shape for a in items])
    return PyList([np_broadcast_to(ctx, a, tuple(shape)) for a in items])


@lib('numpy.broadcast_to')
def np_broadcast_to(ctx, v, shape):
    a = arr(ctx, v)
    shape = shape_arg(ctx, shape)
    if len(shape) < a.ndim:
        raise Raised('ValueError', 'broadcast_to: too few dimensions')
    off = len(shape) - a.ndim
    for j, d in enumerate(a.shape):
        t = shape[j + off]
        if isinstance(d, int) and d == 1:
            continue
        if A.same_dim(ctx, d, t):
            continue
        if ctx.branch(S.eq(d, t)):
            continue
        if ctx.branch(S.eq(d, 1)):
            continue
        raise Raised('ValueError', 'operands could not be broadcast together')
    axes = [None] * off
    for j, d in enumerate(a.shape):
        t = shape[j + off]
        if (isinstance(d, int) and d == 1 and not (isinstance(t, int) and t == 1)) or not A.same_dim(ctx, d, t):
            # stretched axis: always index 0 of the source
            ax = a.axes[j]
            axes.append(None if ax is None else Ax(ax.base, ax.start, 0))
        else:
            axes.append(a.axes[j])
    # Ax with step 0 keeps base index = start
    return Arr(a.cell, shape, axes, a.fixed, True, a.dtype)


@lib('numpy.meshgrid')
def np_meshgrid(ctx, x, y, indexing='xy'):
    x, y = arr(ctx, x), arr(ctx, y)
    xs, ys = x.snapshot(), y.snapshot()
    if indexing == 'ij':
        shape = (x.shape[0], y.shape[0])
        return PyList([Arr.from_fn(shape, x.dtype, lambda idx: xs.at((idx[0],))),
                       Arr.from_fn(shape, y.dtype, lambda idx: ys.at((idx[1],)))])
    shape = (y.shape[0], x.shape[0])
    return PyList([Arr.from_fn(shape, x.dtype, lambda idx: xs.at((idx[1],))),
                   Arr.from_fn(shape, y.dtype, lambda idx: ys.at((idx[0],)))])


class MGrid:
    pass


@lib('getitem:MGrid')
def _mgrid(ctx, v, idx):
    if not isinstance(idx, tuple) or len(idx) != 2:
        raise Unsupported('mgrid form')
    dims = []
    for sl in idx:
        lo = 0 if sl.start is None else sl.start
        if sl.step is not None:
            raise Unsupported('mgrid step')
        dims.append((lo, S.max_(S.sub(sl.stop, lo), 0)))
    shape = (dims[0][1], dims[1][1])
    return PyList([Arr.from_fn(shape, 'int', lambda idx: S.add(dims[0][0], idx[0])),
                   Arr.from_fn(shape, 'int', lambda idx: S.add(dims[1][0], idx[1]))])
LIB['numpy.mgrid'] = MGrid()


# ----------------------------------------------------------------------------------------
# numpy: elementwise math

def unary(name, f, dtype=None, kind='exact'):
    @lib('numpy.' + name, kind)
    def g(ctx, v, out=None):
        if isinstance(v, (Arr, tuple, PyList)):
            a = arr(ctx, v)
            dt = dtype(a.dtype) if callable(dtype) else (dtype or a.dtype)
            res = A.elementwise(ctx, lambda x: f(ctx, x), [a], dtype=dt)
        else:
            res = f(ctx, v)
        if out is not None:
            A.setitem(ctx, out, Ellipsis, res)
            return out
        return res
    return g


def _floor(ctx, x):
    return S.floor_(x)


def _ceil(ctx, x):
    return S.ceil_(x)


def _fix(ctx, x):
    return S.fix_(x)


def _roundf(ctx, x):
    return S.round_(x)


unary('floor', _floor, dtype=lambda d: d if d != 'bool' else 'float')
unary('ceil', _ceil)
unary('fix', _fix)
_np_round0 = unary('round', _roundf)
unary('rint', _roundf)


def _round_decimals(ctx, v, decimals=0, out=None):
    """round(x, d) = round_half_even(x * 10^d) / 10^d for a concrete d (numpy and builtins agree up to
    float representation, A2)."""
    decimals = A.unwrap0(decimals)
    if S.is_z3(decimals) or not isinstance(decimals, int):
        raise Unsupported('round with a symbolic number of decimals')
    if decimals == 0:
        return _np_round0(ctx, v, out=out)
    k = Fraction(10) ** decimals
    f = lambda ctx_, x: S.truediv(S.round_(S.mul(x, k)), k)
    if isinstance(v, (Arr, tuple, PyList)):
        a = arr(ctx, v)
        res = A.elementwise(ctx, lambda x: f(ctx, x), [a], dtype='float')
    else:
        res = f(ctx, v)
    if out is not None:
        A.setitem(ctx, out, Ellipsis, res)
        return out
    return res


lib('numpy.round')(_round_decimals)
lib('numpy.around')(_round_decimals)
unary('square', lambda ctx, x: S.mul(x, x))
unary('conj', lambda ctx, x: S.conj(x))
unary('conjugate', lambda ctx, x: S.conj(x))
unary('real', lambda ctx, x: S.cx(x).re if isinstance(x, S.Cx) else x, dtype=lambda d: 'float' if d == 'complex' else d)
unary('imag', lambda ctx, x: S.cx(x).im if isinstance(x, S.Cx) else 0, dtype=lambda d: 'float' if d == 'complex' else d)
unary('reciprocal', lambda ctx, x: S.truediv(1, x))
unary('negative', lambda ctx, x: S.neg(x))


_sqrt_cache = {}


def sqrt_scalar(ctx, x):
    """sqrt as a fresh s with s >= 0 and s*s == x (x < 0 gives nan in numpy: excluded by an
    obligation-free assumption x >= 0 only where the caller has established it)."""
    if isinstance(x, S.Cx):
        raise Unsupported('complex sqrt')
    if isinstance(x, S.SumT):
        x = S.name_sum(x)       # sqrt of a finite sum: the sum gets a name (see sym.name_sum)
    x = S.num(x)
    if not S.is_z3(x):
        f = S.frac(x)
        if f < 0:
            raise Unsupported('sqrt of negative constant')
        import math
        n, d = f.numerator, f.denominator
        rn, rd = math.isqrt(n), math.isqrt(d)
        if rn * rn == n and rd * rd == d:
            return Fraction(rn, rd) if rd != 1 else Fraction(rn)
        x = S.z(f)
    xr = S.zreal(x)
    key = xr.get_id()
    ctx.assumptions.add('axiom:sqrt(x)=s with s>=0, s*s=x (x>=0)')
    if key in _sqrt_cache:
        s = _sqrt_cache[key]
    else:
        s = SQRT(xr)
        _sqrt_cache[key] = s
    # nonlinear: given to the prover with every obligation, kept out of the explorer's feasibility queries
    ctx.assume(z3.Implies(xr >= 0, z3.And(s >= 0, s * s == xr)), soft=True)
    return s


SQRT = z3.Function('f_sqrt', z3.RealSort(), z3.RealSort())
unary('sqrt', sqrt_scalar, dtype=lambda d: 'float' if d in ('int', 'bool') else d, kind='abstract')

COS = z3.Function('f_cos', z3.RealSort(), z3.RealSort())
SIN = z3.Function('f_sin', z3.RealSort(), z3.RealSort())
EXP = z3.Function('f_exp', z3.RealSort(), z3.RealSort())
SINC = z3.Function('f_sinc', z3.RealSort(), z3.RealSort())


def cos_scalar(ctx, x):
    x = S.num(x)
    if S.is_concrete(x) and S.is_zero(x):
        return 1
    return COS(S.zreal(x))


def sin_scalar(ctx, x):
    x = S.num(x)
    if S.is_concrete(x) and S.is_zero(x):
        return 0
    return SIN(S.zreal(x))


def exp_scalar(ctx, x):
    """exp of a real or complex number: exp(a+ib) = exp(a)(cos b + i sin b)."""
    if isinstance(x, S.Cx):
        re, im = x.re, x.im
        c, s = cos_scalar(ctx, im), sin_scalar(ctx, im)
        if S.is_concrete(re) and S.is_zero(re):
            return S.Cx(c, s)
        m = exp_scalar(ctx, re)
        return S.Cx(S.mul(m, c), S.mul(m, s))
    x = S.num(x)
    if S.is_concrete(x) and S.is_zero(x):
        return 1
    xr = S.zreal(x)
    e = EXP(xr)
    ctx.assume(z3.And(e > 0, z3.Implies(xr > 0, e > 1), z3.Implies(xr < 0, e < 1), z3.Implies(xr == 0, e == 1)),
               'axiom:exp(x)>0, exp(x)>1 for x>0, exp(x)<1 for x<0, exp(0)=1')
    return e


unary('exp', exp_scalar, dtype=lambda d: 'float' if d in ('int', 'bool') else d, kind='abstract')
unary('cos', cos_scalar, dtype='float', kind='abstract')
unary('sin', sin_scalar, dtype='float', kind='abstract')


def sinc_scalar(ctx, x):
    x = S.num(x)
    if S.is_concrete(x) and S.is_zero(x):
        return 1
    s = SINC(S.zreal(x))
    ctx.assume(z3.Implies(S.zreal(x) == 0, s == 1), 'axiom:sinc(0)=1')
    return s


unary('sinc', sinc_scalar, dtype='float', kind='abstract')
unary('deg2rad', lambda ctx, x: S.truediv(S.mul(x, PI), 180), dtype='float')
unary('radians', lambda ctx, x: S.truediv(S.mul(x, PI), 180), dtype='float')


@lib('numpy.abs')
def np_abs(ctx, v, out=None):
    if isinstance(v, (Arr, tuple, PyList)):
        a = arr(ctx, v)
        dt = 'float' if a.dtype == 'complex' else a.dtype
        return A.elementwise(ctx, lambda x: scalar_abs(ctx, x), [a], dtype=dt)
    return scalar_abs(ctx, v)
alias('numpy.absolute', 'numpy.abs')


@lib('op.pow')
def op_pow(ctx, a, b):
    b = A.unwrap0(b) if isinstance(b, Arr) else b
    bn = S.num(b) if not isinstance(b, S.Cx) else b
    if isinstance(bn, Fraction) and bn == Fraction(1, 2):
        return sqrt_scalar(ctx, a)
    if S.is_concrete(bn) and not isinstance(bn, S.Cx):
        if isinstance(bn, Fraction) and bn.denominator == 1:
            bn = bn.numerator
        if isinstance(bn, int):
            # |z|**2 patterns: (sqrt(s))**2 is handled by z3 through the sqrt axiom
            if isinstance(a, S.Cx) or not S.is_concrete(a) or bn >= 0 or True:
                if bn < 0:
                    ctx.world.interp.nonzero(ctx, a)
                return S.pow_(a, bn)
    # general power: uninterpreted
    ctx.assumptions.add('lib[abstract]:pow(x,y) uninterpreted')
    if isinstance(a, S.Cx) or isinstance(b, S.Cx):
        raise Unsupported('complex power')
    return POW(S.zreal(a), S.zreal(b))


POW = z3.Function('f_pow', z3.RealSort(), z3.RealSort(), z3.RealSort())


def binary(name, f, dtype=None):
    @lib('numpy.' + name)
    def g(ctx, a, b, out=None):
        if isinstance(a, (tuple, PyList)):
            a = arr(ctx, a)
        if isinstance(b, (tuple, PyList)):
            b = arr(ctx, b)
        res = A.elementwise(ctx, lambda x, y: f(ctx, x, y), [a, b], dtype=dtype)
        if out is not None:
            if isinstance(res, Arr) and res.dtype == 'complex' and out.dtype != 'complex':
                raise Raised('TypeError', 'cannot cast ufunc output')
            A.setitem(ctx, out, Ellipsis, res)
            return out
        return res
    return g


binary('multiply', lambda ctx, x, y: S.mul(x, y))
binary('add', lambda ctx, x, y: S.add(x, y))
binary('subtract', lambda ctx, x, y: S.sub(x, y))
binary('minimum', lambda ctx, x, y: S.min_(x, y))
binary('maximum', lambda ctx, x, y: S.max_(x, y))
binary('logical_or', lambda ctx, x, y: S.or_(S.truth(x), S.truth(y)), dtype='bool')
binary('logical_and', lambda ctx, x, y: S.and_(S.truth(x), S.truth(y)), dtype='bool')


@lib('numpy.divide')
def np_divide(ctx, a, b, out=None):
    res = A.binop(ctx, 'Div', a, b) if isinstance(a, Arr) or isinstance(b, Arr) else \
        ctx.world.interp.scalar_binop(ctx, 'Div', a, b)
    if out is not None:
        A.setitem(ctx, out, Ellipsis, res)
        return out
    return res
alias('numpy.true_divide', 'numpy.divide')


@lib('numpy.power')
def np_power(ctx, a, b):
    return ctx.world.interp.binop(ctx, 'Pow', a, b)


@lib('numpy.clip')
def np_clip(ctx, a, lo, hi):
    f = lambda x: S.min_(S.max_(x, lo), hi)
    if isinstance(a, Arr):
        dt = A.result_dtype([a.dtype, A.scalar_dtype(lo), A.scalar_dtype(hi)])
        return A.elementwise(ctx, f, [a], dtype=dt)
    return f(a)


@lib('getitem:Gather')
def _gather_getitem(ctx, g, idx):
    """g[0] / g[-1]: the first / last selected element (IndexError on an empty selection)."""
    idx = A.unwrap0(idx)
    if not (isinstance(idx, int) and idx in (0, -1)):
        raise Unsupported('selection element other than first/last')
    ctx.require('selection is non-empty', A.gather_nonempty(ctx, g), exc='IndexError')
    f, l = A.gather_ends(ctx, g)
    return g.value(f if idx == 0 else l)


def _same_mask(ctx, m1, m2):
    """Two 1-D boolean masks select the same positions (checked at a fresh, unconstrained index)."""
    if m1 is m2:
        return True
    if not ctx.known(S.eq(m1.shape[0], m2.shape[0])):
        return False
    q = ctx.fresh_int('mq')
    return ctx.known(z3.Implies(z3.And(q >= 0, q < S.z(m1.shape[0])), S.z(S.truth(m1.at((q,)))) == S.z(S.truth(m2.at((q,))))))


@lib('numpy.delete')
def np_delete(ctx, a, obj, axis=None):
    """np.delete(a, np.where(cond)): the elements of a 1-D array (or of a selection of one) where cond is
    False, in order - kept as a selection aligned with the source indexing."""
    if axis is None and isinstance(A.unwrap0(obj), int) and not isinstance(obj, bool) and isinstance(a, (Arr, tuple, PyList)):
        # np.delete(a, 0) / np.delete(a, -1) on a 1-D array: a copy without its first / last element
        k = A.unwrap0(obj)
        a1 = arr(ctx, a)
        if a1.ndim != 1 or k not in (0, -1):
            raise Unsupported('np.delete with an integer other than 0 / -1, or rank > 1')
        ctx.require('np.delete index in bounds', S.ge(a1.shape[0], 1), exc='IndexError')
        return np_copy(ctx, A.getitem(ctx, a1, slice(1, None) if k == 0 else slice(None, -1)))
    if axis is not None or not isinstance(obj, A.WhereIdx):
        raise Unsupported('np.delete with anything but an np.where(...) index set')
    cond = obj.mask
    if isinstance(a, A.Gather):
        if not (isinstance(cond, A.Gather) and _same_mask(ctx, cond.mask, a.mask)):
            raise Unsupported('np.delete: index set of a different selection')
        keep = A.elementwise(ctx, lambda m_: m_, [a.mask], dtype='bool')
        am, cv, n = a.mask, cond.value, a.mask.shape[0]
        keep = Arr.from_fn((n,), 'bool', lambda idx: S.and_(S.truth(am.at(idx)), S.not_(S.truth(cv(idx[0])))))
        g = A.Gather(a.value, keep)
        g.dtype = a.dtype
        return g
    a = arr(ctx, a)
    if a.ndim != 1 or not isinstance(cond, Arr) or cond.ndim != 1 or not ctx.known(S.eq(a.shape[0], cond.shape[0])):
        raise Unsupported('np.delete: rank / length')
    snap, csnap = a.snapshot(), cond.snapshot()
    keep = Arr.from_fn((a.shape[0],), 'bool', lambda idx: S.not_(S.truth(csnap.at(idx))))
    g = A.Gather(lambda i: snap.at((i,)), keep)
    g.dtype = a.dtype
    return g


@lib('numpy.where')
def np_where(ctx, cond, x=None, y=None):
    if isinstance(cond, A.Gather) and x is None:
        return A.WhereIdx(cond)        # positions within the selection where the condition holds
    cond = arr(ctx, cond)
    if x is None:
        return A.WhereIdx(cond)
    return A.elementwise(ctx, lambda c, p, q: S.ite(S.truth(c), p, q), [cond, x, y],
                         dtype=A.result_dtype([o.dtype if isinstance(o, Arr) else A.scalar_dtype(o) for o in (x, y)]))


@lib('getitem:WhereIdx')
def _where_getitem(ctx, w, idx):
    if w.mask.ndim != 1 or idx != 0:
        raise Unsupported('np.where(...)[k] for this rank')
    return A.IndexSeq(w.mask.snapshot())


@lib('getitem:IndexSeq')
def _indexseq_getitem(ctx, seq, idx):
    """Library contract for the idiom np.where(v)[0][[0, -1]]: first and last True index."""
    items = items_of(ctx, idx) if not S.is_int(idx) else [idx]
    if not all(isinstance(i, int) and i in (0, -1) for i in items):
        raise Unsupported('index-set element other than first/last')
    mask = seq.mask
    n = mask.shape[0]
    q = z3.Int(ctx._name('wq'))
    some = z3.Exists([q], z3.And(q >= 0, q < S.z(n), S.z(S.truth(mask.at((q,))))))
    ctx.require('where(...)[0] is non-empty', some, exc='IndexError')
    if seq.first is None:
        f, l = ctx.fresh_int('first'), ctx.fresh_int('last')
        ctx.assume(z3.And(f >= 0, f <= l, l < S.z(n), S.z(S.truth(mask.at((f,)))), S.z(S.truth(mask.at((l,)))),
                          z3.ForAll([q], z3.Implies(z3.And(q >= 0, q < S.z(n), S.z(S.truth(mask.at((q,))))),
                                                    z3.And(f <= q, q <= l)))),
                   'lib[exact]:np.where(v)[0][[0,-1]] = first/last True index')
        seq.first, seq.last = f, l
    vals = [seq.first if i == 0 else seq.last for i in items]
    if S.is_int(idx):
        return vals[0]
    return Arr.from_list(vals)


@lib('attr:slice.start')
def _sl_start(ctx, s):
    return s.start


@lib('attr:slice.stop')
def _sl_stop(ctx, s):
    return s.stop


@lib('attr:slice.step')
def _sl_step(ctx, s):
    return s.step


@lib('numpy.flatnonzero')
def np_flatnonzero(ctx, a):
    a = arr(ctx, a)
    if a.ndim != 1:
        raise Unsupported('flatnonzero of rank > 1')
    return A.WhereIdx(A.elementwise(ctx, lambda x: S.truth(x), [a], dtype='bool'))


@lib('numpy.nonzero')
def np_nonzero(ctx, a):
    a = arr(ctx, a)
    return A.WhereIdx(A.elementwise(ctx, lambda x: S.truth(x), [a], dtype='bool'))


@lib('numpy.isscalar')
def np_isscalar(ctx, v):
    return S.is_scalar(v) or isinstance(v, str)


@lib('numpy.iscomplexobj')
def np_iscomplexobj(ctx, v):
    if isinstance(v, Arr):
        return v.dtype == 'complex'
    return isinstance(v, S.Cx)


@lib('numpy.can_cast')
def np_can_cast(ctx, frm, to):
    f = A.dtype_from(ctx, frm)
    t = A.dtype_from(ctx, to)
    return A._RANK[f] <= A._RANK[t]


@lib('numpy.array_equal')
def np_array_equal(ctx, a, b):
    a, b = arr(ctx, a), arr(ctx, b)
    if a.ndim != b.ndim:
        return False
    r = True
    for x, y in zip(a.shape, b.shape):
        if not A.same_dim(ctx, x, y):
            if S.is_z3(x) or S.is_z3(y):
                r = S.and_(r, S.eq(x, y))
            else:
                return False
    if any(S.is_z3(d) for d in a.shape):
        eqs = A.elementwise(ctx, lambda x, y: S.eq(x, y), [a, b], dtype='bool')
        return S.and_(r, _quant(ctx, eqs, None, 'all', named=True))
    for idx in itertools.product(*[range(d) for d in a.shape]):
        r = S.and_(r, S.eq(a.at(idx), b.at(idx)))
    return r


# ----------------------------------------------------------------------------------------
# numpy: reductions

def _concrete_indices(shape):
    return itertools.product(*[range(d) for d in shape])


def reduce_all(ctx, a, f, init):
    if any(S.is_z3(d) for d in a.shape):
        raise Unsupported('reduction over symbolic extent')
    out = init
    for idx in _concrete_indices(a.shape):
        out = f(out, a.at(idx))
    return out


def sum_axis(ctx, a, axis):
    """Sum over one axis -> array of SumT (symbolic extent) or plain sums (concrete)."""
    snap = a.snapshot()
    n = a.shape[axis]
    shape = a.shape[:axis] + a.shape[axis + 1:]

    def fn(idx):
        def body(k):
            return snap.at(tuple(idx[:axis]) + (k,) + tuple(idx[axis:]))
        if not S.is_z3(n):
            out = 0
            for k in range(n):
                out = S.add(out, body(k))
            return out
        return S.sigma(0, n, body)
    dt = a.dtype if a.dtype != 'bool' else 'int'
    return Arr.from_fn(shape, dt, fn)


@lib('numpy.sum')
def np_sum(ctx, a, axis=None):
    a = arr(ctx, a)
    if axis is None:
        cur = a
        while cur.ndim > 0:
            cur = sum_axis(ctx, cur, cur.ndim - 1)
        return cur.at(())
    if axis < 0:
        axis += a.ndim
    return sum_axis(ctx, a, axis)
alias('method:ndarray.sum', 'numpy.sum')


@lib('numpy.prod')
def np_prod(ctx, a):
    a = arr(ctx, a)
    return reduce_all(ctx, a, S.mul, 1)


@lib('numpy.max')
def np_max(ctx, a, axis=None):
    a = arr(ctx, a)
    if axis is not None:
        raise Unsupported('max axis')
    it = list(_concrete_indices(a.shape)) if not any(S.is_z3(d) for d in a.shape) else None
    if it is None:
        return _max_symbolic(ctx, a, 'max')
    if not it:
        raise Raised('ValueError', 'zero-size array to reduction operation')
    out = a.at(it[0])
    for idx in it[1:]:
        out = S.max_(out, a.at(idx))
    return out
alias('numpy.amax', 'numpy.max')
alias('method:ndarray.max', 'numpy.max')


@lib('numpy.min')
def np_min(ctx, a, axis=None):
    a = arr(ctx, a)
    if axis is not None:
        raise Unsupported('min axis')
    it = list(_concrete_indices(a.shape)) if not any(S.is_z3(d) for d in a.shape) else None
    if it is None:
        return _max_symbolic(ctx, a, 'min')
    if not it:
        raise Raised('ValueError', 'zero-size array to reduction operation')
    out = a.at(it[0])
    for idx in it[1:]:
        out = S.min_(out, a.at(idx))
    return out
alias('numpy.amin', 'numpy.min')
alias('method:ndarray.min', 'numpy.min')


def _quant(ctx, a, axis, kind, named=False):
    """np.any / np.all.  Concrete extents are expanded, symbolic ones become quantifiers."""
    a = arr(ctx, a)
    snap = a.snapshot()

    def over(body, n):
        if not S.is_z3(n):
            out = (kind == 'all')
            for k in range(n):
                out = S.and_(out, body(k)) if kind == 'all' else S.or_(out, body(k))
            return out
        k = z3.Int(ctx._name('q'))
        b = S.z(body(k))
        rng = z3.And(k >= 0, k < n)
        qf = z3.ForAll([k], z3.Implies(rng, b)) if kind == 'all' else z3.Exists([k], z3.And(rng, b))
        if True:
            return qf
        # name the quantified fact: the explorer branches on the name, the prover gets the definition
        # (only for eagerly evaluated whole-array reductions: no enclosing bound variables)
        name = z3.Bool(ctx._name('np_%s' % kind))
        ctx.assume(name == qf, axiom=True)
        return name
    if axis is None:
        def rec(prefix, dims):
            if not dims:
                return S.truth(snap.at(tuple(prefix)))
            return over(lambda k: rec(prefix + [k], dims[1:]), dims[0])
        res = rec([], list(a.shape))
        if named and S.is_z3(res) and z3.is_quantifier(res):
            name = z3.Bool(ctx._name('np_%s' % kind))
            ctx.assume(name == res, axiom=True)
            return name
        return res
    if axis < 0:
        axis += a.ndim
    n = a.shape[axis]
    shape = a.shape[:axis] + a.shape[axis + 1:]
    return Arr.from_fn(shape, 'bool', lambda idx: over(
        lambda k: S.truth(snap.at(tuple(idx[:axis]) + (k,) + tuple(idx[axis:]))), n))


@lib('numpy.any')
def np_any(ctx, a, axis=None):
    return _quant(ctx, a, axis, 'any')
alias('method:ndarray.any', 'numpy.any')


@lib('numpy.all')
def np_all(ctx, a, axis=None):
    if isinstance(a, bool) or (S.is_z3(a) and z3.is_bool(a)):
        return a
    return _quant(ctx, a, axis, 'all')
alias('method:ndarray.all', 'numpy.all')


# ----------------------------------------------------------------------------------------
# numpy: shape manipulation

@lib('method:ndarray.astype')
def nd_astype(ctx, a, dtype):
    return A.astype(ctx, a, A.dtype_from(ctx, dtype))


@lib('method:ndarray.ravel')
def nd_ravel(ctx, a):
    if a.ndim == 1:
        return a
    if a.ndim == 0:
        return nd_reshape(ctx, a, (1,))
    if a.ndim == 2:
        snap = a.snapshot()
        w = a.shape[1]
        flat = Arr.from_fn((S.mul(a.shape[0], w),), a.dtype,
                           lambda idx: snap.at((S.floordiv(idx[0], w), S.mod(idx[0], w))))
        flat.ravel_of = snap          # remembered so that a sum over the flat index can be written as a double sum
        return flat
    raise Unsupported('ravel ndim')
alias('numpy.ravel', 'method:ndarray.ravel')


@lib('method:ndarray.reshape')
def nd_reshape(ctx, a, *shape):
    if len(shape) == 1 and isinstance(shape[0], (tuple, PyList)):
        shape = tuple(items_of(ctx, shape[0]))
    shape = tuple(A.unwrap0(s) for s in shape)
    snap = a.snapshot()
    # generic: flat index arithmetic (row-major)
    if any(isinstance(s, int) and s == -1 for s in shape):
        known = 1
        for s in shape:
            if not (isinstance(s, int) and s == -1):
                known = S.mul(known, s)
        shape = tuple(S.floordiv(a.size(), known) if (isinstance(s, int) and s == -1) else s for s in shape)
    ctx.require('reshape size', S.eq(_prod(shape), a.size()), exc='ValueError')

    def fn(idx):
        flat = 0
        for i, d in zip(idx, shape):
            flat = S.add(S.mul(flat, d), i)
        src = []
        for d in reversed(snap.shape):
            src.append(S.mod(flat, d) if not (isinstance(d, int) and d == 1) else 0)
            flat = S.floordiv(flat, d) if not (isinstance(d, int) and d == 1) else flat
        return snap.at(tuple(reversed(src)))
    return Arr.from_fn(shape, a.dtype, fn)


def _prod(shape):
    n = 1
    for d in shape:
        n = S.mul(n, d)
    return n


@lib('numpy.append')
def np_append(ctx, a, b):
    a, b = arr(ctx, a), arr(ctx, b)
    a = nd_ravel(ctx, a) if a.ndim != 1 else a
    b = nd_ravel(ctx, b) if b.ndim != 1 else b
    sa, sb = a.snapshot(), b.snapshot()
    n = a.shape[0]
    dt = A.result_dtype([a.dtype, b.dtype])
    def fn(idx):
        if isinstance(n, int) and n == 0:
            return sb.at((idx[0],))
        c = S.lt(idx[0], n)
        if isinstance(c, bool):      # concrete index: evaluate only the side that exists
            return sa.at((idx[0],)) if c else sb.at((S.sub(idx[0], n),))
        return S.ite(c, sa.at((idx[0],)), sb.at((S.sub(idx[0], n),)))
    return Arr.from_fn((S.add(n, b.shape[0]),), dt, fn)


@lib('numpy.outer')
def np_outer(ctx, a, b):
    a, b = arr(ctx, a), arr(ctx, b)
    sa, sb = a.snapshot(), b.snapshot()
    dt = A.result_dtype([a.dtype, b.dtype])
    return Arr.from_fn((a.shape[0], b.shape[0]), dt, lambda idx: S.mul(sa.at((idx[0],)), sb.at((idx[1],))))


@lib('numpy.dot')
def np_dot(ctx, a, b, out=None):
    a, b = arr(ctx, a), arr(ctx, b)
    sa, sb = a.snapshot(), b.snapshot()
    dt = A.result_dtype([a.dtype, b.dtype])
    if a.ndim == 2 and b.ndim == 2:
        n = a.shape[1]
        if not A.same_dim(ctx, n, b.shape[0]):
            ctx.require('dot inner dimensions', S.eq(n, b.shape[0]), exc='ValueError')

        def fn(idx):
            return _sum_over(n, lambda k: S.mul(sa.at((idx[0], k)), sb.at((k, idx[1]))))
        res = Arr.from_fn((a.shape[0], b.shape[1]), dt, fn)
    elif a.ndim == 1 and b.ndim == 1:
        n = a.shape[0]
        if not A.same_dim(ctx, n, b.shape[0]):
            ctx.require('dot inner dimensions', S.eq(n, b.shape[0]), exc='ValueError')
        ra, rb = getattr(a, 'ravel_of', None), getattr(b, 'ravel_of', None)
        if ra is not None and rb is not None and S.is_z3(n) and ctx.known(S.and_(S.eq(ra.shape[0], rb.shape[0]), S.eq(ra.shape[1], rb.shape[1]))):
            # both operands are row-major flattenings of (h, w) arrays: k -> (k // w, k % w) is a bijection
            # of [0, h w) onto [0, h) x [0, w), so the sum over k is the double sum over (i, j)
            ctx.assumptions.add('lib[exact]:sum over a row-major flat index = double sum over (row, column)')
            return _sum_over(ra.shape[0], lambda i: _sum_over(ra.shape[1], lambda j: S.mul(ra.at((i, j)), rb.at((i, j)))))
        return _sum_over(n, lambda k: S.mul(sa.at((k,)), sb.at((k,))))
    else:
        raise Unsupported('dot ndim')
    if out is not None:
        # numpy requires exact shape and dtype for out=
        for x, y in zip(out.shape, res.shape):
            if not A.same_dim(ctx, x, y):
                ctx.require('dot out shape', S.eq(x, y), exc='ValueError')
        if out.ndim != res.ndim:
            raise Raised('ValueError', 'output array has wrong dimensions')
        if out.dtype != res.dtype:
            raise Raised('ValueError', 'output array is not acceptable (must have the right datatype)')
        A.setitem(ctx, out, Ellipsis, res)
        return out
    return res
alias('method:ndarray.dot', 'numpy.dot')


def _sum_over(n, body):
    if not S.is_z3(n):
        out = 0
        for k in range(n):
            out = S.add(out, body(k))
        return out
    return S.sigma(0, n, body)


@lib('numpy.einsum')
def np_einsum(ctx, spec, *ops):
    spec = spec.replace(' ', '')
    ins, out = spec.split('->')
    ins = ins.split(',')
    if len(ops) == 1 and isinstance(ops[0], (tuple, PyList)) and len(ins) > 1:
        ops = items_of(ctx, ops[0])
    arrs = [arr(ctx, o).snapshot() for o in ops]
    dims = {}
    for letters, a in zip(ins, arrs):
        if len(letters) != a.ndim:
            raise Raised('ValueError', 'einsum operand rank')
        for ch, d in zip(letters, a.shape):
            if ch in dims:
                if not A.same_dim(ctx, dims[ch], d):
                    ctx.require('einsum dimension %s' % ch, S.eq(dims[ch], d), exc='ValueError')
            else:
                dims[ch] = d
    summed = [ch for ch in dims if ch not in out]
    dt = A.result_dtype([a.dtype for a in arrs])

    def fn(idx):
        env = dict(zip(out, idx))

        def rec(chs, env):
            if not chs:
                v = 1
                for letters, a in zip(ins, arrs):
                    v = S.mul(v, a.at(tuple(env[c] for c in letters)))
                return v
            ch = chs[0]
            return _sum_over(dims[ch], lambda k: rec(chs[1:], dict(env, **{ch: k})))
        return rec(summed, env)
    return Arr.from_fn(tuple(dims[c] for c in out), dt, fn)


@lib('numpy.repeat')
def np_repeat(ctx, a, reps, axis=None):
    a = arr(ctx, a)
    if axis is None:
        raise Unsupported('repeat without axis')
    if axis < 0:
        axis += a.ndim
    snap = a.snapshot()
    reps = A.unwrap0(reps)
    shape = tuple(S.mul(d, reps) if k == axis else d for k, d in enumerate(a.shape))
    return Arr.from_fn(shape, a.dtype, lambda idx: snap.at(
        tuple(S.floordiv(i, reps) if k == axis else i for k, i in enumerate(idx))))


@lib('numpy.tile')
def np_tile(ctx, a, reps):
    a = arr(ctx, a)
    reps = shape_arg(ctx, reps)
    if a.ndim != 2 or len(reps) != 2:
        raise Unsupported('tile form')
    snap = a.snapshot()
    h, w = a.shape
    return Arr.from_fn((S.mul(h, reps[0]), S.mul(w, reps[1])), a.dtype,
                       lambda idx: snap.at((S.mod(idx[0], h), S.mod(idx[1], w))))


@lib('numpy.fft.fftfreq')
def np_fftfreq(ctx, n, d=1):
    # k/(n d) for k < ceil(n/2), (k-n)/(n d) otherwise
    half = S.floordiv(S.add(n, 1), 2)
    return Arr.from_fn((n,), 'float', lambda idx: S.truediv(
        S.ite(S.lt(idx[0], half), idx[0], S.sub(idx[0], n)), S.mul(n, d)))


@lib('numpy.fft.fftshift')
def np_fftshift(ctx, a, axes=None):
    a = arr(ctx, a)
    snap = a.snapshot()
    shape = a.shape
    # y[i] = x[(i - n//2) mod n]
    return Arr.from_fn(shape, a.dtype, lambda idx: snap.at(tuple(
        S.mod(S.sub(i, S.floordiv(n, 2)), n) for i, n in zip(idx, shape))))


@lib('numpy.fft.ifftshift')
def np_ifftshift(ctx, a, axes=None):
    a = arr(ctx, a)
    snap = a.snapshot()
    shape = a.shape
    # y[i] = x[(i + n//2) mod n]
    return Arr.from_fn(shape, a.dtype, lambda idx: snap.at(tuple(
        S.mod(S.add(i, S.floordiv(n, 2)), n) for i, n in zip(idx, shape))))


@lib('numpy.errstate')
def np_errstate(ctx, **k):
    return None


class FInfo:
    """np.finfo(float dtype): only .eps is modelled (2^-52 for float64; A2: other float widths read alike)."""


@lib('numpy.finfo')
def np_finfo(ctx, dt):
    name = dt.name if isinstance(dt, A.DType) else A.dtype_from(ctx, dt)
    if name not in ('float', 'complex'):
        raise Raised('ValueError', 'data type %s not inexact' % name)
    return FInfo()


@lib('attr:FInfo.eps')
def _finfo_eps(ctx, f):
    return Fraction(1, 2 ** 52)


class IInfo:
    def __init__(self, bits, signed=True):
        self.max = 2 ** (bits - 1) - 1 if signed else 2 ** bits - 1
        self.min = -2 ** (bits - 1) if signed else 0


@lib('numpy.iinfo')
def np_iinfo(ctx, dt):
    from .interp import ClassRef, Builtin
    name = dt.name if isinstance(dt, (A.DType, ClassRef, Builtin)) else str(dt)
    name = name.split('.')[-1]
    table = {'int8': (8, True), 'int16': (16, True), 'int32': (32, True), 'int64': (64, True), 'int': (64, True),
             'uint8': (8, False), 'uint16': (16, False), 'uint32': (32, False), 'uint64': (64, False)}
    if name not in table:
        raise Unsupported('iinfo of %s' % name)
    return IInfo(*table[name])


@lib('attr:IInfo.max')
def _iinfo_max(ctx, i):
    return i.max


@lib('attr:IInfo.min')
def _iinfo_min(ctx, i):
    return i.min


class DTypeKind:
    def __init__(self, kinds):
        self.kinds = kinds


LIB['numpy.inexact'] = DTypeKind(('float', 'complex'))
LIB['numpy.floating'] = DTypeKind(('float',))
LIB['numpy.complexfloating'] = DTypeKind(('complex',))
LIB['numpy.integer'] = DTypeKind(('int',))
LIB['numpy.number'] = DTypeKind(('int', 'float', 'complex'))


@lib('numpy.issubdtype')
def np_issubdtype(ctx, dt, kind):
    name = dt.name if isinstance(dt, A.DType) else A.dtype_from(ctx, dt)
    if not isinstance(kind, DTypeKind):
        raise Unsupported('issubdtype against a concrete dtype')
    return name in kind.kinds


MAPCOORD = z3.Function('map_coordinates', z3.IntSort(), z3.RealSort(), z3.RealSort(), z3.RealSort())


@lib('scipy.ndimage.map_coordinates', 'abstract')
def sp_map_coordinates(ctx, inp, coordinates, output=None, order=3, mode='constant', cval=0.0, prefilter=True):
    """Abstract spline interpolation of a 2-D array: out[idx] = I_k(row coordinate, column coordinate), one
    uninterpreted function I_k per call (so it is a function of the position only), which reproduces the input
    at integer positions inside the array (interpolating spline at its knots; scipy's documented behaviour for
    the modes used here).  The call is recorded as a ghost."""
    inp = arr(ctx, inp)
    cs = items_of(ctx, coordinates)
    if inp.ndim != 2 or len(cs) != 2 or output is not None:
        raise Unsupported('map_coordinates form')
    yy, xx = arr(ctx, cs[0]).snapshot(), arr(ctx, cs[1]).snapshot()
    calls = ctx.__dict__.setdefault('ghost_map_coordinates', [])
    ident = ctx.fresh_int('mapcoord_call')
    snap = inp.snapshot()
    n, m = inp.shape
    i, j = z3.Int(ctx._name('mci')), z3.Int(ctx._name('mcj'))
    ctx.assume(z3.ForAll([i, j], z3.Implies(z3.And(i >= 0, i < S.z(n), j >= 0, j < S.z(m)),
                                            MAPCOORD(ident, z3.ToReal(i), z3.ToReal(j)) == S.zreal(S.cx(snap.at((i, j))).re if inp.dtype == 'complex' else snap.at((i, j))))),
               'lib[abstract]:map_coordinates reproduces the input at integer positions', axiom=True)
    out = Arr.from_fn(yy.shape, 'float', lambda idx: MAPCOORD(ident, S.zreal(yy.at(idx)), S.zreal(xx.at(idx))))
    calls.append({'input': snap, 'yy': yy, 'xx': xx, 'order': order, 'mode': mode, 'ident': ident, 'output': out.snapshot()})
    return out
alias('scipy.ndimage.interpolation.map_coordinates', 'scipy.ndimage.map_coordinates')


def install(world):
    world.library.update(LIB)


@lib('numpy.isclose')
def np_isclose(ctx, a, b, rtol=None, atol=None):
    rtol = S.frac(1e-05) if rtol is None else rtol
    atol = S.frac(1e-08) if atol is None else atol
    f = lambda x, y: S.le(S.abs_(S.sub(x, y)), S.add(atol, S.mul(rtol, S.abs_(y))))
    a = arr(ctx, a) if isinstance(a, (tuple, PyList)) else a
    b = arr(ctx, b) if isinstance(b, (tuple, PyList)) else b
    return A.elementwise(ctx, f, [a, b], dtype='bool')


@lib('numpy.allclose')
def np_allclose(ctx, a, b, rtol=None, atol=None):
    r = np_isclose(ctx, a, b, rtol, atol)
    if isinstance(r, Arr):
        return _quant(ctx, r, None, 'all', named=True)
    return r


@lib('numpy.polyval')
def np_polyval(ctx, p, x):
    p = arr(ctx, p)
    if p.ndim != 1 or S.is_z3(p.shape[0]):
        raise Unsupported('polyval with symbolic order')
    coeffs = [p.at((k,)) for k in range(p.shape[0])]
    f = lambda v: _horner(coeffs, v)
    if isinstance(x, Arr):
        return A.elementwise(ctx, f, [x], dtype='float')
    return f(x)


def _horner(coeffs, v):
    out = 0
    for c in coeffs:
        out = S.add(S.mul(out, v), c)
    return out


@lib('numpy.fft.fft2', 'abstract')
def np_fft2(ctx, a, s=None, axes=None, norm=None):
    """Abstract: a fresh array of the same shape; the normalisation keyword is recorded as a ghost."""
    a = arr(ctx, a)
    if any(ctx.branch(S.z(S.eq(d, 0))) for d in a.shape[-2:]):
        raise Raised('ValueError', 'Invalid number of FFT data points (0) specified.')
    out = A.fresh_array(ctx, 'fft2', a.shape, 'complex')
    ctx.__dict__.setdefault('ghost_fft_calls', []).append({'fn': 'fft2', 'norm': norm, 'input': a.snapshot(), 'output': out})
    ctx.ghost_last_fft2 = out
    return out


@lib('numpy.fft.ifft2', 'abstract')
def np_ifft2(ctx, a, s=None, axes=None, norm=None):
    a = arr(ctx, a)
    out = A.fresh_array(ctx, 'ifft2', a.shape, 'complex')
    ctx.__dict__.setdefault('ghost_fft_calls', []).append({'fn': 'ifft2', 'norm': norm, 'input': a.snapshot(), 'output': out})
    return out


@lib('math.factorial')
def _factorial(ctx, n):
    n = A.unwrap0(n)
    if S.is_z3(n):
        raise Unsupported('factorial of a symbolic integer')
    import math
    if n < 0:
        raise Raised('ValueError', 'factorial of negative')
    return math.factorial(int(n))
alias('factorial', 'math.factorial')

ANGLE = z3.Function('f_angle', z3.RealSort(), z3.RealSort(), z3.RealSort())


@lib('numpy.angle', 'abstract')
def np_angle(ctx, v):
    f = lambda x: ANGLE(S.zreal(S.cx(x).re), S.zreal(S.cx(x).im))
    if isinstance(v, Arr):
        return A.elementwise(ctx, f, [v], dtype='float')
    return f(v)


def _max_symbolic(ctx, a, kind):
    """np.max / np.min over a symbolic extent: a fresh value with the defining axioms (library contract)."""
    key = (kind, a.cell.id, len(a.cell.writes), tuple(str(d) for d in a.shape))
    cache = ctx.__dict__.setdefault('_minmax', {})
    if (kind, a.cell.id) in cache and not a.cell.writes:
        return cache[(kind, a.cell.id)]
    snap = a.snapshot()
    mx = ctx.fresh_real('np_' + kind)
    if not a.cell.writes and a.is_identity_view():
        cache[(kind, a.cell.id)] = mx
    idx = [z3.Int(ctx._name('mxi')) for _ in a.shape]
    rng = z3.And(*[z3.And(i >= 0, i < S.z(d)) for i, d in zip(idx, a.shape)])
    v = S.z(S.num(snap.at(tuple(idx))))
    v = z3.ToReal(v) if z3.is_int(v) else v
    bound = (v <= mx) if kind == 'max' else (v >= mx)
    ctx.assume(z3.ForAll(idx, z3.Implies(rng, bound)), 'lib[exact]:np.%s over a symbolic extent' % kind, axiom=True)
    ctx.assume(z3.Exists(idx, z3.And(rng, v == mx)), axiom=True)
    ctx.ghost_max = mx
    return mx


@lib('method:scalar.astype')
def _scalar_astype(ctx, v, dtype):
    return A.cast_scalar(v, A.dtype_from(ctx, dtype))


# ----------------------------------------------------------------------------------------
# random numbers (library contract): a Generator made by default_rng(seed) is a deterministic function of
# the seed and of the sequence of calls made on it; the module-level functions use the hidden global state

class PyGenerator:
    def __init__(self, stream):
        self.stream = stream        # Int term identifying the stream (the seed, or a fresh id for seed=None)
        self.calls = 0


_I, _Rr = z3.IntSort(), z3.RealSort()
RNG_INT = z3.Function('rng_int', _I, _I, _I, _I, _Rr, _I)          # stream, call, i, j, parameter -> integer draw
RNG_REAL = z3.Function('rng_real', _I, _I, _I, _I, _Rr, _Rr, _Rr)  # stream, call, i, j, p1, p2 -> real draw


@lib('numpy.random.default_rng', 'abstract')
def np_default_rng(ctx, seed=None):
    if seed is None:
        stream = ctx.fresh_int('unseeded_stream')
        ctx.events.append(('rng', 'unseeded generator'))
    else:
        seed = A.unwrap0(seed)
        if not S.is_int(seed):
            raise Unsupported('non-integer seed')
        stream = seed
    return PyGenerator(stream)


def _draw_shape(ctx, size, *params):
    if size is not None:
        return shape_arg(ctx, size)
    for p in params:
        if isinstance(p, Arr):
            return p.shape
    return ()


def _idx2(idx):
    idx = list(idx) + [0, 0]
    return S.z(idx[0]), S.z(idx[1])


@lib('method:PyGenerator.poisson', 'abstract')
def _rng_poisson(ctx, g, lam, size=None):
    """Non-negative integer draws; ValueError when some rate is negative or too large (numpy's behaviour)."""
    shape = _draw_shape(ctx, size, lam)
    lam_a = arr(ctx, lam) if isinstance(lam, Arr) else None
    if lam_a is not None and any(S.is_z3(d) for d in lam_a.shape):
        q = [z3.Int(ctx._name('pq')) for _ in lam_a.shape]
        rng_ = z3.And(*[z3.And(i >= 0, i < S.z(d)) for i, d in zip(q, lam_a.shape)])
        v = S.zreal(lam_a.at(tuple(q)))
        bad = z3.Exists(q, z3.And(rng_, z3.Or(v < 0, v > z3.RealVal('9223372006484771000'))))
        name = z3.Bool(ctx._name('poisson_rejects'))
        ctx.assume(name == bad, axiom=True)
        if ctx.branch(name):
            raise Raised('ValueError', 'lam < 0 or lam value too large')
    call = g.calls
    g.calls += 1
    snap = lam_a.snapshot() if lam_a is not None else None

    def fn(idx):
        i, j = _idx2(idx)
        p = S.zreal(snap.at(idx)) if snap is not None else S.zreal(lam)
        d = RNG_INT(S.z(g.stream), S.z(call), i, j, p)
        ctx.assume(d >= 0, 'lib[abstract]:poisson draws are non-negative integers')
        return d
    return Arr.from_fn(shape, 'int', fn)


@lib('method:PyGenerator.normal', 'abstract')
def _rng_normal(ctx, g, loc=0, scale=1, size=None):
    shape = _draw_shape(ctx, size, loc, scale)
    call = g.calls
    g.calls += 1
    la = loc.snapshot() if isinstance(loc, Arr) else None
    sa = scale.snapshot() if isinstance(scale, Arr) else None

    def fn(idx):
        i, j = _idx2(idx)
        l = la.at(idx) if la is not None else loc
        s_ = sa.at(idx) if sa is not None else scale
        return RNG_REAL(S.z(g.stream), S.z(call), i, j, S.zreal(l), S.zreal(s_))
    return Arr.from_fn(shape, 'float', fn)


@lib('method:PyGenerator.lognormal', 'abstract')
def _rng_lognormal(ctx, g, mean=0, sigma=1, size=None):
    shape = _draw_shape(ctx, size, mean, sigma)
    call = g.calls
    g.calls += 1

    def fn(idx):
        i, j = _idx2(idx)
        d = RNG_REAL(S.z(g.stream), S.z(call), i, j, S.zreal(mean), S.zreal(sigma))
        ctx.assume(d > 0, 'lib[abstract]:lognormal draws are positive')
        return d
    return Arr.from_fn(shape, 'float', fn)


def _global_rng(name):
    @lib('numpy.random.' + name, 'abstract')
    def f(ctx, *a, **k):
        ctx.events.append(('global-rng', 'numpy.random.' + name))
        size = k.get('size')
        if size is not None:
            return A.fresh_array(ctx, 'global_rng', shape_arg(ctx, size), 'float')
        return ctx.fresh_real('global_rng')
    return f


for _n in ('uniform', 'rand', 'normal', 'random', 'poisson', 'seed', 'randn'):
    _global_rng(_n)


@lib('numpy.linalg.lstsq', 'abstract')
def np_lstsq(ctx, a, b, rcond=None):
    """Abstract: some solution vector (its least-squares property is not used by the frame obligations)."""
    a = arr(ctx, a)
    x = A.fresh_array(ctx, 'lstsq_x', (a.shape[1],), 'float')
    ctx.__dict__.setdefault('ghost_lstsq_calls', []).append({'A': a.snapshot(), 'b': arr(ctx, b).snapshot(), 'x': x})
    return (x, None, None, None)


@lib('numpy.count_nonzero')
def np_count_nonzero(ctx, a):
    a = arr(ctx, a)
    snap = a.snapshot()
    cur = Arr.from_fn(a.shape, 'int', lambda idx: S.ite(S.truth(snap.at(idx)), 1, 0))
    return np_sum(ctx, cur)


@lib('copy.copy')
def _copy_copy(ctx, v):
    if isinstance(v, Obj):
        return Obj(v.cls, dict(v.attrs))
    if isinstance(v, PyList):
        return PyList(v.items)
    if isinstance(v, Arr):
        return np_copy(ctx, v)
    return v


@lib('numpy.linalg.pinv', 'abstract')
def np_pinv(ctx, a):
    """Abstract pseudo-inverse: a fresh (cols x rows) matrix; the argument is recorded as a ghost."""
    a = arr(ctx, a)
    out = A.fresh_array(ctx, 'pinv', (a.shape[1], a.shape[0]), 'float')
    ctx.__dict__.setdefault('ghost_pinv_calls', []).append({'input': a.snapshot(), 'out': out})
    return out


@lib('numpy.ndenumerate')
def np_ndenumerate(ctx, a):
    a = arr(ctx, a)
    if a.ndim != 1 or S.is_z3(a.shape[0]):
        raise Unsupported('ndenumerate over a symbolic / multi-dimensional array')
    return IterList([((i,), a.at((i,))) for i in range(a.shape[0])])


@lib('numpy.diff')
def np_diff(ctx, a):
    a = arr(ctx, a)
    if a.ndim != 1:
        raise Unsupported('diff rank')
    snap = a.snapshot()
    n = a.shape[0]
    return Arr.from_fn((S.max_(S.sub(n, 1), 0),), a.dtype if a.dtype != 'bool' else 'int',
                       lambda idx: S.sub(snap.at((S.add(idx[0], 1),)), snap.at((idx[0],))))


@lib('numpy.sort', 'abstract')
def np_sort(ctx, a):
    """Abstract sort of a 1-D array: the result is non-decreasing, and it equals the input element by element
    when (and, by the first fact, only when) the input is already non-decreasing."""
    a = arr(ctx, a)
    out = A.fresh_array(ctx, 'sorted', a.shape, a.dtype)
    if a.ndim == 1:
        snap = a.snapshot()
        n = a.shape[0]
        i, j = z3.Int(ctx._name('sq')), z3.Int(ctx._name('sq'))
        rng1 = z3.And(i >= 0, i + 1 < S.z(n))
        ctx.assume(z3.ForAll([i], z3.Implies(rng1, S.z(S.le(out.at((i,)), out.at((i + 1,)))))), 'lib[abstract]:np.sort result is non-decreasing', axiom=True)
        nondecr = z3.ForAll([i], z3.Implies(rng1, S.z(S.le(snap.at((i,)), snap.at((i + 1,))))))
        same = z3.ForAll([j], z3.Implies(z3.And(j >= 0, j < S.z(n)), S.z(S.eq(out.at((j,)), snap.at((j,))))))
        ctx.assume(z3.Implies(nondecr, same), 'lib[abstract]:np.sort leaves a non-decreasing array as it is', axiom=True)
    return out


@lib('numpy.concatenate')
def np_concatenate(ctx, parts):
    items = [arr(ctx, p) for p in items_of(ctx, parts)]
    out = items[0]
    for p in items[1:]:
        out = np_append(ctx, out, p)
    return out


@lib('numpy.hstack')
def np_hstack(ctx, parts):
    return np_concatenate(ctx, parts)


@lib('numpy.unique')
def np_unique(ctx, a, **kw):
    """Exact for a sequence of concrete integers (sorted, duplicate-free); anything else is outside the model."""
    if kw:
        raise Unsupported('np.unique keywords')
    items = [A.unwrap0(x) for x in items_of(ctx, a)] if not S.is_scalar(a) else [a]
    if not all(isinstance(x, int) and not isinstance(x, bool) for x in items):
        raise Unsupported('np.unique of symbolic or non-integer values')
    return Arr.from_list(sorted(set(items)), 'int')


@lib('numpy.intersect1d')
def np_intersect1d(ctx, a, b, **kw):
    """Library contract for the idiom intersect1d(np.where(m1), np.where(m2)) on 1-D masks: np.where gives
    the increasing, duplicate-free index sets, so their sorted unique intersection is np.where(m1 & m2)."""
    if kw:
        raise Unsupported('intersect1d keywords')
    if not (isinstance(a, A.WhereIdx) and isinstance(b, A.WhereIdx)) or a.mask.ndim != 1 or b.mask.ndim != 1:
        raise Unsupported('intersect1d of anything but two 1-D np.where index sets')
    if not ctx.known(S.eq(a.mask.shape[0], b.mask.shape[0])):
        raise Unsupported('intersect1d: index sets of arrays of different length')
    ctx.assumptions.add('lib[exact]:intersect1d(where(m1), where(m2)) = where(m1 & m2) (1-D)')
    return A.WhereIdx(A.elementwise(ctx, lambda p, q: S.and_(S.truth(p), S.truth(q)), [a.mask, b.mask], dtype='bool'))


def _trapz_selection(ctx, y, x):
    """np.trapz(y[sel], x[sel]) for the same 1-D selection sel on both: consecutive selected samples are
    adjacent source samples exactly when the selection is contiguous - emitted as an obligation - and then
    the result is sum_k [sel(k) and sel(k+1)] (x[k+1] - x[k]) (y[k] + y[k+1]) / 2."""
    my, mx = y.mask, x.mask
    n = my.shape[0]
    if not ctx.known(S.eq(n, mx.shape[0])):
        raise Unsupported('trapz over selections of different arrays')
    q = ctx.fresh_int('selq')
    same = z3.Implies(z3.And(q >= 0, q < S.z(n)), S.z(S.truth(my.at((q,)))) == S.z(S.truth(mx.at((q,)))))
    if my is not mx and not ctx.known(same):
        raise Unsupported('trapz over two different selections')
    i, j, k = ctx.fresh_int('seli'), ctx.fresh_int('selj'), ctx.fresh_int('selk')
    ctx.oblige('lib.trapz(selection)::selection_is_contiguous',
               z3.Implies(z3.And(i >= 0, i < j, j < k, k < S.z(n), S.z(S.truth(my.at((i,)))), S.z(S.truth(my.at((k,))))),
                          S.z(S.truth(my.at((j,))))), 'requires')
    ctx.assumptions.add('lib[exact]:np.trapz over a contiguous selection = indicator-weighted trapezoid sum')

    def body(t):
        both = S.and_(S.truth(my.at((t,))), S.truth(my.at((S.add(t, 1),))))
        trap = S.truediv(S.mul(S.sub(x.value(S.add(t, 1)), x.value(t)), S.add(y.value(t), y.value(S.add(t, 1)))), 2)
        return S.ite(both, trap, 0)
    return _sum_over(S.max_(S.sub(n, 1), 0), body)


@lib('numpy.trapz')
def np_trapz(ctx, y, x=None, dx=None):
    """sum_k (x[k+1] - x[k]) (y[k] + y[k+1]) / 2"""
    if isinstance(y, A.Gather) and isinstance(x, A.Gather):
        return _trapz_selection(ctx, y, x)
    if isinstance(y, A.Gather) or isinstance(x, A.Gather):
        raise Unsupported('trapz mixing a selection with a plain array / dx')
    y = arr(ctx, y)
    ys = y.snapshot()
    n = y.shape[0]
    if x is not None:
        xs = arr(ctx, x).snapshot()
        w = lambda k: S.sub(xs.at((S.add(k, 1),)), xs.at((k,)))
    else:
        d = 1 if dx is None else dx
        w = lambda k: d
    body = lambda k: S.truediv(S.mul(w(k), S.add(ys.at((k,)), ys.at((S.add(k, 1),)))), 2)
    return _sum_over(S.max_(S.sub(n, 1), 0), body)


@lib('method:ndarray.min')
def nd_min(ctx, a, axis=None):
    return np_min(ctx, a, axis)


@lib('method:ndarray.max')
def nd_max(ctx, a, axis=None):
    return np_max(ctx, a, axis)


class InterpObj:
    """scipy.interpolate.interp1d instance (abstract): remembers what it was built from."""

    def __init__(self, ident, x, y, kind, fill):
        self.ident, self.x, self.y, self.kind, self.fill = ident, x, y, kind, fill


INTERP1D = z3.Function('interp1d_eval', z3.IntSort(), z3.RealSort(), z3.RealSort())


@lib('scipy.interpolate.interp1d', 'abstract')
def sp_interp1d(ctx, x, y, kind='linear', copy=True, bounds_error=None, fill_value=None, **kw):
    o = InterpObj(ctx.fresh_int('interp1d'), arr(ctx, x), arr(ctx, y), kind, fill_value)
    ctx.__dict__.setdefault('ghost_interp1d', []).append(o)
    return o


def _interp_call(ctx, o, xs):
    f = lambda v: INTERP1D(S.z(o.ident), S.zreal(v))
    ctx.__dict__.setdefault('ghost_interp1d_evals', []).append(o)
    if isinstance(xs, Arr):
        return A.elementwise(ctx, f, [xs], dtype='float')
    if isinstance(xs, A.Gather):
        return xs.map(f)
    if isinstance(xs, (PyList, tuple)):
        return A.elementwise(ctx, f, [arr(ctx, xs)], dtype='float')
    return f(xs)
