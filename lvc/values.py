"""Value domain of the symbolic interpreter: arrays with views and heap cells, objects."""
import itertools
from . import sym as S

_ids = itertools.count(1)


class Cell:
    """A heap buffer.  `get` maps a full base index tuple to a scalar; writes replace `get`
    functionally (so closures that captured the old `get` keep snapshot semantics)."""

    def __init__(self, shape, get, dtype, origin='fresh'):
        self.id = next(_ids)
        self.shape = tuple(shape)
        self.get = get
        self.dtype = dtype
        self.origin = origin        # 'fresh' | 'param:<path>' | 'global:<name>'
        self.writes = []            # list of (path-condition snapshot, description)
        self.get0 = get             # content at creation / at function entry


class Ax:
    """One view axis mapped on a base axis: base_index = start + step * i, 0 <= i < n."""
    __slots__ = ('base', 'start', 'step')

    def __init__(self, base, start=0, step=1):
        self.base = base
        self.start = start
        self.step = step


class Arr:
    """ndarray value: a view (list of Ax or None for broadcast/new axes) on a Cell.
    fixed: {base_axis: index} for base axes removed by integer indexing."""

    def __init__(self, cell, shape, axes, fixed=None, readonly=False, dtype=None):
        self.cell = cell
        self.shape = tuple(shape)
        self.axes = list(axes)
        self.fixed = dict(fixed or {})
        self.readonly = readonly
        self.dtype = dtype or cell.dtype

    # -- construction ---------------------------------------------------------------
    @staticmethod
    def from_fn(shape, dtype, fn, origin='fresh'):
        shape = tuple(shape)
        cell = Cell(shape, fn, dtype, origin)
        return Arr(cell, shape, [Ax(k) for k in range(len(shape))])

    @staticmethod
    def from_list(items, dtype=None):
        """1-D (or nested concrete) list of scalars."""
        items = list(items)
        if items and isinstance(items[0], (list, tuple)):
            rows = [list(r) for r in items]
            n, m = len(rows), len(rows[0])

            def fn2(idx, rows=rows):
                return _select2(rows, idx[0], idx[1])
            return Arr.from_fn((n, m), dtype or _dtype_of_items([x for r in rows for x in r]), fn2)
        n = len(items)

        def fn(idx, items=items):
            return select(items, idx[0])
        return Arr.from_fn((n,), dtype or _dtype_of_items(items), fn)

    @property
    def ndim(self):
        return len(self.shape)

    def base_index(self, idx):
        """view index tuple -> base index tuple"""
        b = [None] * len(self.cell.shape)
        for k, v in self.fixed.items():
            b[k] = v
        for i, ax in enumerate(self.axes):
            if ax is None:
                continue
            b[ax.base] = S.add(ax.start, S.mul(ax.step, idx[i]))
        assert all(x is not None for x in b), 'incomplete view'
        return tuple(b)

    def at(self, idx):
        idx = tuple(idx)
        assert len(idx) == self.ndim, (idx, self.shape)
        return self.cell.get(self.base_index(idx))

    def snapshot(self):
        """A read-only array with the current content (decoupled from later writes)."""
        get = self.cell.get
        me = self

        def fn(idx):
            return get(me.base_index(idx))
        return Arr.from_fn(self.shape, self.dtype, fn)

    def is_identity_view(self):
        if self.fixed or len(self.axes) != len(self.cell.shape):
            return False
        for i, ax in enumerate(self.axes):
            if ax is None or ax.base != i or not S.is_zero(ax.start) or not (ax.step == 1):
                return False
        return True

    def size(self):
        n = 1
        for d in self.shape:
            n = S.mul(n, d)
        return n

    def __repr__(self):
        return 'Arr(shape=%s, dtype=%s, cell=%d)' % (self.shape, self.dtype, self.cell.id)


def _dtype_of_items(items):
    dt = 'int'
    for x in items:
        if isinstance(x, S.Cx):
            return 'complex'
        if isinstance(x, str):
            return 'str'
        if S.is_bool(x):
            if dt == 'int':
                dt = 'bool' if all(S.is_bool(y) for y in items) else 'int'
            continue
        if S.is_real(x):
            dt = 'float'
    return dt


def select(items, i):
    """items[i] for a concrete list and a possibly symbolic index (assumed in range)."""
    if not S.is_z3(i):
        return items[i]
    out = items[-1]
    for k in range(len(items) - 2, -1, -1):
        out = S.ite(S.eq(i, k), items[k], out)
    return out


def _select2(rows, i, j):
    return select([select(r, j) for r in rows], i)


class Obj:
    """Instance of a repository class."""

    def __init__(self, cls, attrs=None, origin='fresh'):
        self.id = next(_ids)
        self.cls = cls              # ClassInfo
        self.attrs = dict(attrs or {})
        self.origin = origin
        self.writes = []

    def __repr__(self):
        return '<%s #%d>' % (self.cls.name, self.id)


class PyList:
    """A mutable Python list with identity (needed for aliasing/frames)."""

    def __init__(self, items, origin='fresh'):
        self.id = next(_ids)
        self.items = list(items)
        self.origin = origin
        self.writes = []

    def __repr__(self):
        return 'PyList(%r)' % (self.items,)


class PyDict:
    def __init__(self, d, origin='fresh'):
        self.id = next(_ids)
        self.d = dict(d)
        self.origin = origin
        self.writes = []


class Str:
    """Opaque formatted string (f-strings in messages)."""

    def __repr__(self):
        return '<str>'


class Seq:
    """A sequence of symbolic length: len is an Int term, elem(i) gives the i-th element."""

    def __init__(self, length, elem, origin='fresh'):
        self.id = next(_ids)
        self.length = length
        self.elem = elem
        self.origin = origin
        self.writes = []

    def append(self, x):
        n, old = self.length, self.elem
        self.elem = lambda i, n=n, old=old, x=x: ite_struct(S.eq(i, n), x, old(i))
        self.length = S.add(n, 1)


def ite_struct(c, a, b):
    """if-then-else over scalars, tuples and slices of scalars."""
    if isinstance(c, bool):
        return a if c else b
    if isinstance(a, tuple) and isinstance(b, tuple) and len(a) == len(b):
        return tuple(ite_struct(c, x, y) for x, y in zip(a, b))
    if isinstance(a, slice) and isinstance(b, slice):
        return slice(ite_struct(c, a.start, b.start), ite_struct(c, a.stop, b.stop), ite_struct(c, a.step, b.step))
    if a is None and b is None:
        return None
    return S.ite(c, a, b)
