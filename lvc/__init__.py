"""lvc - a small verification-condition generator for the Python/NumPy subset used by lentil.

Run under python3-vt (z3-solver, cvc5).  See /verif/DESIGN.md.
"""
