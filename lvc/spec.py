"""Contract DSL helpers used by the side-car files in /verif/contracts."""
import z3

from . import sym as S
from .prove import Contract
from .values import Arr, Obj, PyList, Seq
from . import arrops as A
from .interp import Raised
from .loops import LoopSpec

REGISTRY = {}


def contract(qualname, level='P'):
    c = Contract(qualname)
    c.level = level
    REGISTRY[qualname] = c
    return c


def ints(ctx, *names):
    return [z3.Int(ctx._name(n)) for n in names]


def reals(ctx, *names):
    return [z3.Real(ctx._name(n)) for n in names]


def int_pair(ctx, name):
    return (z3.Int(ctx._name(name + '0')), z3.Int(ctx._name(name + '1')))


def extent(ctx, name):
    """A well-formed extent (rmin <= rmax, cmin <= cmax)."""
    e = tuple(z3.Int(ctx._name('%s.%s' % (name, f))) for f in ('rmin', 'rmax', 'cmin', 'cmax'))
    ctx.assume(z3.And(e[0] <= e[1], e[2] <= e[3]))
    return e


def shape2(ctx, name, lo=1):
    s = (z3.Int(ctx._name(name + '.h')), z3.Int(ctx._name(name + '.w')))
    ctx.assume(z3.And(s[0] >= lo, s[1] >= lo))
    return s


def array(ctx, name, shape, dtype='float'):
    return A.fresh_array(ctx, name, shape, dtype)


def forall_ints(ctx, n, base='q'):
    return [z3.Int(ctx._name(base)) for _ in range(n)]


def in_extent(e, r, c):
    return z3.And(r >= e[0], r <= e[1], c >= e[2], c <= e[3])


def obj(ctx, qualname, **attrs):
    cls = ctx.world.repo.klass(qualname)
    return Obj(cls, attrs)


def elems(ctx, v):
    """Scalars of a short sequence value (tuple / list / 1-D array of concrete length)."""
    if isinstance(v, Arr):
        if v.ndim == 0:
            return [v.at(())]
        return [A.unwrap0(x) for x in ctx.world.interp.iterate(ctx, v)]
    if isinstance(v, PyList):
        return [A.unwrap0(x) for x in v.items]
    return [A.unwrap0(x) for x in v]
