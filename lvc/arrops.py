"""ndarray semantics: broadcasting, basic/advanced indexing with exact slice normalisation,
views, functional heap updates (DESIGN 3.2)."""
from fractions import Fraction

import z3

from . import sym as S
from .sym import Unsupported
from .values import Arr, Cell, Ax, PyList, Obj, select


def R(exc, msg=None):
    from .interp import Raised
    return Raised(exc, msg)


# ----------------------------------------------------------------------------------------
# conversion

def as_array(ctx, v, dtype=None):
    """np.asarray semantics: an ndarray is returned as is (same object)."""
    if isinstance(v, Arr):
        if dtype is not None and dtype != v.dtype:
            return astype(ctx, v, dtype)
        return v
    if isinstance(v, Obj):
        raise Unsupported('asarray of object')
    if isinstance(v, (tuple, PyList, list)):
        items = list(v.items) if isinstance(v, PyList) else list(v)
        if len(items) == 0:
            return Arr.from_fn((0,), dtype or 'float', lambda idx: 0)
        if any(isinstance(x, Arr) for x in items):
            return stack(ctx, [as_array(ctx, x) for x in items], dtype)
        if any(isinstance(x, (tuple, PyList)) for x in items):
            rows = [list(x.items) if isinstance(x, PyList) else list(x) for x in items]
            if len(set(len(r) for r in rows)) != 1:
                raise R('ValueError', 'inhomogeneous shape')
            if any(isinstance(y, (tuple, PyList, Arr)) for r in rows for y in r):
                return stack(ctx, [as_array(ctx, r) for r in rows], dtype)
            a = Arr.from_list(rows)
        else:
            a = Arr.from_list(items)
        if dtype is not None and dtype != a.dtype:
            return astype(ctx, a, dtype)
        return a
    if v is None:
        raise Unsupported('asarray(None)')
    dt = dtype or scalar_dtype(v)
    val = cast_scalar(v, dt)
    return Arr.from_fn((), dt, lambda idx, val=val: val)


def stack(ctx, arrs, dtype=None):
    n = len(arrs)
    sh = arrs[0].shape
    for a in arrs[1:]:
        if len(a.shape) != len(sh) or not all(ctx.known(S.eq(x, y)) for x, y in zip(a.shape, sh)):
            raise R('ValueError', 'inhomogeneous shape')
    snaps = [a.snapshot() for a in arrs]
    dt = dtype or result_dtype([a.dtype for a in arrs])

    def fn(idx):
        i = idx[0]
        vals = [s.at(idx[1:]) for s in snaps]
        return select(vals, i)
    return Arr.from_fn((n,) + tuple(sh), dt, fn)


def scalar_dtype(v):
    if isinstance(v, S.Cx):
        return 'complex'
    if S.is_bool(v):
        return 'bool'
    if S.is_int(v):
        return 'int'
    if S.is_real(v) or isinstance(v, S.SumT):
        return 'float'
    if isinstance(v, str):
        return 'str'
    raise Unsupported('dtype of %r' % (v,))


_RANK = {'bool': 0, 'int': 1, 'float': 2, 'complex': 3}


def result_dtype(dts):
    if any(d == 'str' for d in dts):
        return 'str'
    if any(d == 'object' for d in dts):
        return 'object'
    return max(dts, key=lambda d: _RANK[d])


def cast_scalar(v, dt):
    if isinstance(v, S.SumT):
        return v
    if dt == 'complex':
        return S.cx(v)
    if dt == 'float':
        if isinstance(v, S.Cx):
            return v.re       # numpy warns (ComplexWarning) and drops the imaginary part
        if isinstance(v, S.SumT):
            return v
        return S.to_real(S.num(v))
    if dt == 'int':
        if isinstance(v, S.Cx):
            v = v.re
        return S.fix_(S.num(v))
    if dt == 'bool':
        return S.truth(v)
    return v


def astype(ctx, a, dt):
    snap = a.snapshot()
    return Arr.from_fn(a.shape, dt, lambda idx: cast_scalar(snap.at(idx), dt))


def dtype_from(ctx, v):
    """Translate a dtype argument (np.complex128, complex, 'float', bool ...)."""
    from .interp import ClassRef, Builtin
    if v is None:
        return None
    if isinstance(v, str):
        name = v
    elif isinstance(v, ClassRef):
        name = v.name
    elif isinstance(v, Builtin):
        name = v.name.split('.')[-1]
    elif isinstance(v, DType):
        return v.name
    else:
        raise Unsupported('dtype %r' % (v,))
    name = name.split('.')[-1]
    table = {'complex': 'complex', 'complex128': 'complex', 'float': 'float', 'float64': 'float',
             'float32': 'float', 'int': 'int', 'int64': 'int', 'int32': 'int', 'int16': 'int',
             'uint8': 'int', 'uint16': 'int', 'uint32': 'int', 'uint64': 'int', 'bool': 'bool', 'bool_': 'bool'}
    if name not in table:
        raise Unsupported('dtype %s' % name)
    return table[name]


class DType:
    def __init__(self, name):
        self.name = name

    def __repr__(self):
        return 'dtype(%s)' % self.name


# ----------------------------------------------------------------------------------------
# broadcasting

def same_dim(ctx, a, b):
    if not S.is_z3(a) and not S.is_z3(b):
        return a == b
    if S.is_z3(a) and S.is_z3(b) and a.eq(b):
        return True
    return ctx.known(S.eq(a, b))


def broadcast_shapes(ctx, shapes, exc='ValueError'):
    nd = max(len(s) for s in shapes)
    out = []
    for k in range(nd):
        dim = 1
        for s in shapes:
            j = k - (nd - len(s))
            if j < 0:
                continue
            d = s[j]
            if isinstance(dim, int) and dim == 1:
                dim = d
                continue
            if isinstance(d, int) and d == 1:
                continue
            if same_dim(ctx, d, dim):
                continue
            # symbolic: decide
            if ctx.branch(S.eq(d, dim)):
                continue
            if ctx.branch(S.eq(dim, 1)):
                dim = d
                continue
            if ctx.branch(S.eq(d, 1)):
                continue
            raise R(exc, 'operands could not be broadcast together')
        out.append(dim)
    return tuple(out)


def bidx(ctx, arr_shape, out_shape, idx):
    """index into an operand of shape arr_shape for output index idx (right-aligned)."""
    off = len(out_shape) - len(arr_shape)
    res = []
    for j, d in enumerate(arr_shape):
        o = out_shape[j + off]
        if isinstance(d, int) and d == 1 and not (isinstance(o, int) and o == 1):
            res.append(0)
        elif same_dim(ctx, d, o):
            res.append(idx[j + off])
        else:
            res.append(0)
    return tuple(res)


def elementwise(ctx, f, operands, dtype=None):
    arrs = [o for o in operands if isinstance(o, Arr)]
    if not arrs:
        return f(*operands)
    ops = [as_array(ctx, o) if isinstance(o, (Arr, tuple, PyList)) else o for o in operands]
    shapes = [o.shape for o in ops if isinstance(o, Arr)]
    shape = broadcast_shapes(ctx, shapes)
    snaps = [o.snapshot() if isinstance(o, Arr) else o for o in ops]
    if dtype is None:
        dtype = result_dtype([o.dtype if isinstance(o, Arr) else scalar_dtype(o) for o in ops])
    if any((isinstance(o, Arr) and o.dtype == 'str') or isinstance(o, str) for o in ops) \
            and all(not S.is_z3(d) for d in shape):
        # string arrays are small and concrete: evaluate eagerly (no if-then-else over strings)
        import itertools as _it
        table = {}
        for idx in _it.product(*[range(d) for d in shape]):
            vals = [o.at(bidx(ctx, o.shape, shape, idx)) if isinstance(o, Arr) else o for o in snaps]
            table[idx] = f(*vals)
        if len(shape) == 1:
            return Arr.from_list([table[(i,)] for i in range(shape[0])], dtype=dtype)
        if len(shape) == 2:
            return Arr.from_list([[table[(i, j)] for j in range(shape[1])] for i in range(shape[0])], dtype=dtype)
        raise Unsupported('string array rank')

    def fn(idx):
        vals = []
        for o in snaps:
            if isinstance(o, Arr):
                vals.append(o.at(bidx(ctx, o.shape, shape, idx)))
            else:
                vals.append(o)
        return f(*vals)
    return Arr.from_fn(shape, dtype, fn)


_CMP = {'Lt': S.lt, 'LtE': S.le, 'Gt': S.gt, 'GtE': S.ge, 'Eq': S.eq, 'NotEq': S.ne}


def binop(ctx, op, a, b):
    interp = ctx.world.interp
    if isinstance(a, (tuple, PyList)):
        a = as_array(ctx, a)
    if isinstance(b, (tuple, PyList)):
        b = as_array(ctx, b)
    if a is None or b is None:
        raise R('TypeError', 'array op with None')
    if op in _CMP:
        f = _CMP[op]
        return elementwise(ctx, lambda x, y: f(x, y), [a, b], dtype='bool')
    if op in ('BitAnd', 'BitOr'):
        g = S.and_ if op == 'BitAnd' else S.or_
        return elementwise(ctx, lambda x, y: g(S.truth(x), S.truth(y)), [a, b], dtype='bool')
    dts = [o.dtype if isinstance(o, Arr) else scalar_dtype(o) for o in (a, b)]
    dt = result_dtype(dts)
    if dt == 'bool' and op in ('Add', 'Mult'):
        dt = 'bool'
    if op == 'Div' and dt in ('int', 'bool'):
        dt = 'float'
    if op == 'Div':
        # numpy: division by zero gives inf/nan + RuntimeWarning, not an exception  [A2]
        f = lambda x, y: S.truediv(x, y) if not (S.is_concrete(y) and S.is_zero(y)) else _div0(ctx)
    elif op == 'Pow':
        f = lambda x, y: interp.power(ctx, x, y)
    else:
        f = lambda x, y: interp.scalar_binop(ctx, op, x, y)
    return elementwise(ctx, f, [a, b], dtype=dt)


def _div0(ctx):
    raise Unsupported('array division by a constant zero')


# ----------------------------------------------------------------------------------------
# attributes / methods

def arr_attr(ctx, a, name):
    from .interp import BoundMethod
    lib = ctx.world.library
    if name == 'shape':
        return tuple(a.shape)
    if name == 'ndim':
        return a.ndim
    if name == 'size':
        return a.size()
    if name == 'dtype':
        return DType(a.dtype)
    if name == 'T':
        return transpose(ctx, a)
    if name == 'real':
        if a.dtype != 'complex':
            return a
        return real_imag_view(ctx, a, 're')
    if name == 'imag':
        if a.dtype != 'complex':
            return Arr.from_fn(a.shape, a.dtype, lambda idx: 0)
        return real_imag_view(ctx, a, 'im')
    key = 'method:ndarray.' + name
    if key in lib:
        return BoundMethod(a, lib[key])
    raise Unsupported('ndarray.%s' % name)


def real_imag_view(ctx, a, part):
    snap = a.snapshot()
    return Arr.from_fn(a.shape, 'float', lambda idx: getattr(S.cx(snap.at(idx)), part))


def set_real_imag(ctx, a, name, value):
    cur = a.snapshot()
    v = as_array(ctx, value) if not S.is_scalar(value) else value
    shape = a.shape

    def val(idx):
        x = v.at(bidx(ctx, v.shape, shape, idx)) if isinstance(v, Arr) else v
        c = S.cx(cur.at(idx))
        return S.Cx(x, c.im) if name == 'real' else S.Cx(c.re, x)
    tmp = Arr.from_fn(shape, 'complex', val)
    setitem(ctx, a, Ellipsis, tmp)


def transpose(ctx, a):
    if a.ndim < 2:
        return a
    return Arr(a.cell, tuple(reversed(a.shape)), list(reversed(a.axes)), a.fixed, a.readonly, a.dtype)


# ----------------------------------------------------------------------------------------
# indexing

def norm_slice(ctx, sl, n):
    """Exact Python slice.indices(n) for step > 0 -> (start, step, length)."""
    step = 1 if sl.step is None else sl.step
    if S.is_z3(step):
        raise Unsupported('symbolic slice step')
    if isinstance(step, Fraction):
        raise R('TypeError', 'slice step')
    if step <= 0:
        raise Unsupported('non-positive slice step')

    def clamp(v, default):
        if v is None:
            return default
        v = unwrap0(v)
        if not S.is_int(v):
            raise R('TypeError', 'slice indices must be integers')
        return S.ite(S.lt(v, 0), S.max_(S.add(v, n), 0), S.min_(v, n))
    start = clamp(sl.start, 0)
    stop = clamp(sl.stop, n)
    span = S.sub(stop, start)
    if step == 1:
        length = S.max_(span, 0)
    else:
        length = S.max_(S.floordiv(S.add(span, step - 1), step), 0)
    return start, step, length


def unwrap0(v):
    if isinstance(v, Arr) and v.ndim == 0:
        return v.at(())
    return v


class WhereIdx:
    """np.where(mask) / np.nonzero(mask): the index set of a boolean array."""

    def __init__(self, mask):
        self.mask = mask


class IndexSeq:
    """np.where(mask)[0] for a 1-D mask: the increasing sequence of True indices."""

    def __init__(self, mask):
        self.mask = mask
        self.first = None
        self.last = None


class Gather:
    """x[mask] / x[np.where(mask)]: the elements of a 1-D array selected by a boolean mask.  Kept aligned
    with the source indexing: value(i) is meaningful where mask(i) holds.  Supports what the verified code
    does with it: being passed on, mapped elementwise, and scattered back with the same index set."""

    def __init__(self, value, mask):
        self.value = value      # callable: source index -> scalar
        self.mask = mask        # Arr (1-D bool), snapshot
        self.dtype = 'float'

    def map(self, f, dtype=None):
        v = self.value
        g = Gather(lambda i: f(v(i)), self.mask)
        g.dtype = dtype or self.dtype
        g.first, g.last = self.first, self.last
        return g

    first = None      # lazily introduced source indices of the first / last selected element
    last = None


def gather_binop(ctx, op, a, b):
    """Arithmetic / comparison between a selection and a scalar (or a selection of the same source positions):
    element-wise on the selected elements, aligned with the source indexing."""
    interp = ctx.world.interp
    cmp_ops = {'Lt': S.lt, 'LtE': S.le, 'Gt': S.gt, 'GtE': S.ge, 'Eq': S.eq, 'NotEq': S.ne}

    def apply(x, y):
        if op in cmp_ops:
            return cmp_ops[op](x, y)
        return interp.scalar_binop(ctx, op, x, y)
    dt = 'bool' if op in cmp_ops else 'float'
    if isinstance(a, Gather) and isinstance(b, Gather):
        if a.mask is not b.mask:
            raise Unsupported('operation between two different selections')
        return _gather2(a, b, apply, dt)
    if isinstance(a, Gather):
        y = unwrap0(b)
        if not S.is_scalar(y):
            raise Unsupported('selection combined with an array')
        return a.map(lambda x: apply(x, y), dt)
    x = unwrap0(a)
    if not S.is_scalar(x):
        raise Unsupported('selection combined with an array')
    return b.map(lambda y: apply(x, y), dt)


def _gather2(a, b, apply, dt):
    av, bv = a.value, b.value
    g = Gather(lambda i: apply(av(i), bv(i)), a.mask)
    g.dtype = dt
    g.first, g.last = a.first, a.last
    return g


def gather_ends(ctx, g):
    """Source indices of the first and last selected element of a non-empty selection (fresh integers with
    their defining axioms, as for np.where(v)[0][[0, -1]])."""
    import z3
    if g.first is None:
        n = g.mask.shape[0]
        q = z3.Int(ctx._name('gq'))
        f, l = ctx.fresh_int('sel_first'), ctx.fresh_int('sel_last')
        sel = lambda t: S.z(S.truth(g.mask.at((t,))))
        ctx.assume(z3.And(f >= 0, f <= l, l < S.z(n), sel(f), sel(l),
                          z3.ForAll([q], z3.Implies(z3.And(q >= 0, q < S.z(n), sel(q)), z3.And(f <= q, q <= l)))),
                   'lib[exact]:first/last element of a boolean selection')
        g.first, g.last = f, l
    return g.first, g.last


def gather_nonempty(ctx, g):
    import z3
    n = g.mask.shape[0]
    q = z3.Int(ctx._name('gq'))
    return z3.Exists([q], z3.And(q >= 0, q < S.z(n), S.z(S.truth(g.mask.at((q,))))))


def expand_index(idx, ndim):
    if not isinstance(idx, tuple):
        idx = (idx,)
    idx = list(idx)
    n_real = sum(1 for i in idx if i is not None and i is not Ellipsis)
    if sum(1 for i in idx if i is Ellipsis) > 1:
        raise R('IndexError', 'an index can only have a single ellipsis')
    if Ellipsis in idx:
        k = idx.index(Ellipsis)
        idx[k:k + 1] = [slice(None)] * (ndim - n_real)
    else:
        idx += [slice(None)] * (ndim - n_real)
    if sum(1 for i in idx if i is not None) > ndim:
        raise R('IndexError', 'too many indices for array')
    return idx


def getitem(ctx, a, idx):
    """a[idx]; full integer indexing yields a scalar as in numpy."""
    v = getview(ctx, a, idx)
    if isinstance(v, Arr) and v.ndim == 0 and not (idx is Ellipsis or idx == ()):
        return v.at(())
    return v


def getview(ctx, a, idx):
    idx = _normalise_index_value(ctx, idx)
    if isinstance(idx, WhereIdx):
        return mask_gather(ctx, a, idx.mask)
    if isinstance(idx, Arr) and idx.dtype == 'bool':
        return mask_gather(ctx, a, idx)
    if isinstance(idx, Arr) and idx.dtype == 'int' and idx.ndim >= 1:
        return fancy_get(ctx, a, idx)
    if isinstance(idx, tuple) and any(isinstance(i, Arr) and i.ndim >= 1 for i in idx):
        raise Unsupported('advanced indexing with index arrays')
    items = expand_index(idx, a.ndim)
    shape, axes, fixed = [], [], dict(a.fixed)
    k = 0   # view axis of a consumed
    for it in items:
        if it is None:
            shape.append(1)
            axes.append(None)
            continue
        ax = a.axes[k]
        n = a.shape[k]
        if isinstance(it, slice):
            start, step, length = norm_slice(ctx, it, n)
            shape.append(length)
            if ax is None:
                axes.append(None)
            else:
                axes.append(Ax(ax.base, S.add(ax.start, S.mul(ax.step, start)), S.mul(ax.step, step)))
        else:
            i = unwrap0(it)
            if S.is_bool(i) or not S.is_int(i):
                raise R('IndexError', 'only integers, slices, ... are valid indices')
            ok = S.and_(S.ge(i, S.neg(n)), S.lt(i, n))
            ctx.require('index in bounds', ok, exc='IndexError')
            i = S.ite(S.lt(i, 0), S.add(i, n), i)
            if ax is not None:
                fixed[ax.base] = S.add(ax.start, S.mul(ax.step, i))
        k += 1
    return Arr(a.cell, tuple(shape), axes, fixed, a.readonly, a.dtype)


def _normalise_index_value(ctx, idx):
    if isinstance(idx, PyList):
        return as_array(ctx, idx)
    if isinstance(idx, tuple) and len(idx) == 1 and isinstance(idx[0], WhereIdx):
        return idx[0]
    return idx


def fancy_get(ctx, a, ia):
    """a[int_array] on the first axis (copy)."""
    snap = a.snapshot()
    isnap = ia.snapshot()
    n = a.shape[0]
    if ia.ndim != 1:
        raise Unsupported('fancy index ndim')
    # bounds: every index in range (obligation as outcome)
    if not S.is_z3(ia.shape[0]):
        for j in range(ia.shape[0]):
            i = isnap.at((j,))
            ctx.require('fancy index in bounds', S.and_(S.ge(i, S.neg(n)), S.lt(i, n)), exc='IndexError')
    else:
        raise Unsupported('fancy index of symbolic length')

    def fn(idx):
        i = isnap.at((idx[0],))
        i = S.ite(S.lt(i, 0), S.add(i, n), i)
        return snap.at((i,) + tuple(idx[1:]))
    return Arr.from_fn((ia.shape[0],) + tuple(a.shape[1:]), a.dtype, fn)


def mask_gather(ctx, a, mask):
    if a.ndim != 1 or mask.ndim != 1:
        raise Unsupported('boolean-mask gather of rank > 1')
    snap = a.snapshot()
    return Gather(lambda i: snap.at((i,)), mask.snapshot())


def view_inverse(ctx, view, b):
    """For a base index tuple b: (condition that b lies in the view, view index tuple)."""
    cond = True
    vidx = [0] * view.ndim
    for kbase, fix in view.fixed.items():
        cond = S.and_(cond, S.eq(b[kbase], fix))
    for i, ax in enumerate(view.axes):
        if ax is None:
            vidx[i] = 0
            continue
        d = S.sub(b[ax.base], ax.start)
        step = ax.step
        n = view.shape[i]
        if S.is_z3(step):
            raise Unsupported('symbolic view step')
        if step == 1 and S.is_concrete(ax.start) and S.is_zero(ax.start) and \
                (n is view.cell.shape[ax.base] or same_dim(ctx, n, view.cell.shape[ax.base])):
            vidx[i] = d          # the whole base axis: every valid base index is in the view
            continue
        if step == 1:
            cond = S.and_(cond, S.ge(d, 0), S.lt(d, n))
            vidx[i] = d
        else:
            cond = S.and_(cond, S.ge(d, 0), S.lt(d, S.mul(n, step)), S.eq(S.mod(d, step), 0))
            vidx[i] = S.floordiv(d, step)
    return cond, tuple(vidx)


_OPS = {'Add': S.add, 'Sub': S.sub, 'Mult': S.mul}


def setitem(ctx, a, idx, value, op=None):
    """a[idx] = value   or   a[idx] op= value."""
    idx = _normalise_index_value(ctx, idx)
    if a.readonly:
        raise R('ValueError', 'assignment destination is read-only')
    if isinstance(idx, WhereIdx):
        idx = idx.mask
    if isinstance(idx, Arr) and idx.dtype == 'bool' and isinstance(value, Gather):
        return gather_scatter(ctx, a, idx, value, op)
    if isinstance(idx, Arr) and idx.dtype == 'bool':
        return mask_set(ctx, a, idx, value, op)
    view = getview(ctx, a, idx)
    if isinstance(value, (tuple, PyList)):
        value = as_array(ctx, value)
    if isinstance(value, Arr):
        vs = value.snapshot()
        # value must broadcast *to* the target shape
        if len(vs.shape) > view.ndim:
            # leading dims of size 1 are tolerated by numpy; keep it simple
            lead = vs.shape[:len(vs.shape) - view.ndim]
            if not all(isinstance(d, int) and d == 1 for d in lead):
                raise R('ValueError', 'could not broadcast input array')
        off = view.ndim - len(vs.shape)
        for j, d in enumerate(vs.shape):
            if j + off < 0:
                continue
            t = view.shape[j + off]
            if isinstance(d, int) and d == 1:
                continue
            if same_dim(ctx, d, t):
                continue
            if ctx.branch(S.eq(d, t)):
                continue
            if ctx.branch(S.eq(d, 1)):
                continue
            raise R('ValueError', 'could not broadcast input array into shape')

        def val(vidx):
            return vs.at(bidx(ctx, vs.shape[-view.ndim:] if len(vs.shape) > view.ndim else vs.shape,
                              view.shape, vidx))
        vdt = vs.dtype
    else:
        if value is None:
            raise R('TypeError', 'store None')
        sval = value

        def val(vidx):
            return sval
        vdt = scalar_dtype(value)
    cell = a.cell
    old = cell.get
    dt = cell.dtype
    if vdt == 'complex' and dt in ('float', 'int', 'bool'):
        if op is not None:
            raise R('TypeError', 'cannot cast complex to %s in place' % dt)
        # plain assignment: numpy casts with a ComplexWarning (drops imaginary part)
    f = _OPS.get(op) if op else None
    if op == 'Div':
        f = lambda x, y: S.truediv(x, y)
        if dt in ('int', 'bool'):
            raise R('TypeError', 'in-place true division of an integer array')
    if op and f is None:
        raise Unsupported('in-place %s' % op)

    def new_get(b, old=old, view=view):
        cond, vidx = view_inverse(ctx, view, b)
        if isinstance(cond, bool) and not cond:
            return old(b)
        v = val(vidx)
        if f is not None:
            v = f(old(b), v)
        v = cast_scalar(v, dt)
        return _ite_any(cond, v, old(b))
    cell.get = new_get
    ctx.write_event(cell, 'store')


def _ite_any(cond, a, b):
    if isinstance(cond, bool):
        return a if cond else b
    if isinstance(a, S.SumT) or isinstance(b, S.SumT):
        return GuardedSum.make(cond, a, b)
    return S.ite(cond, a, b)


class GuardedSum:
    @staticmethod
    def make(cond, a, b):
        # ite(c, a, b) with sums = [c]*a + [!c]*b, using 0/1 indicator coefficients
        ind = S.ite(cond, 1, 0)
        nind = S.ite(cond, 0, 1)
        return S.add(S.mul(a, ind), S.mul(b, nind))


def gather_scatter(ctx, a, mask, g, op=None):
    """a[mask] = g where g was gathered with the same index set: position by position."""
    if op is not None or a.ndim != 1:
        raise Unsupported('scatter form')
    ms, gm = mask.snapshot(), g.mask
    n = a.shape[0]
    q = z3.Int(ctx._name('gs'))
    same = z3.ForAll([q], z3.Implies(z3.And(q >= 0, q < S.z(n)), S.z(S.truth(ms.at((q,)))) == S.z(S.truth(gm.at((q,))))))
    ctx.require('scatter uses the index set of the gather', same, exc='ValueError')
    cell = a.cell
    old = cell.get
    me = a
    dt = cell.dtype

    def new_get(b):
        cond, vidx = view_inverse(ctx, me, b)
        m = S.truth(ms.at(vidx))
        return _ite_any(S.and_(cond, m), cast_scalar(g.value(vidx[0]), dt), old(b))
    cell.get = new_get
    ctx.write_event(cell, 'scatter')


def mask_set(ctx, a, mask, value, op=None):
    """a[mask] = scalar (mask has the shape of a)."""
    if not all(same_dim(ctx, x, y) for x, y in zip(mask.shape, a.shape)) or mask.ndim != a.ndim:
        raise Unsupported('boolean mask of different shape')
    if isinstance(value, Arr):
        if value.ndim == 0:
            value = value.at(())
        else:
            raise Unsupported('a[mask] = array')
    ms = mask.snapshot()
    cell = a.cell
    old = cell.get
    dt = cell.dtype
    f = _OPS.get(op) if op else None
    me = a

    def new_get(b):
        cond, vidx = view_inverse(ctx, me, b)
        if isinstance(cond, bool) and not cond:
            return old(b)
        m = S.truth(ms.at(vidx))
        v = value if f is None else f(old(b), value)
        return _ite_any(S.and_(cond, m), cast_scalar(v, dt), old(b))
    cell.get = new_get
    ctx.write_event(cell, 'masked store')


# ----------------------------------------------------------------------------------------
# helpers used by contracts

def fresh_array(ctx, name, shape, dtype, origin='fresh'):
    """An array of unknown content: an uninterpreted function of the index."""
    nd = len(shape)
    if dtype == 'complex':
        fr = z3.Function(ctx._name(name + '.re'), *([z3.IntSort()] * nd + [z3.RealSort()]))
        fi = z3.Function(ctx._name(name + '.im'), *([z3.IntSort()] * nd + [z3.RealSort()]))
        fn = lambda idx: S.Cx(fr(*[S.z(i) for i in idx]) if nd else fr(), fi(*[S.z(i) for i in idx]) if nd else fi())
    else:
        sort = {'float': z3.RealSort(), 'int': z3.IntSort(), 'bool': z3.BoolSort()}[dtype]
        f = z3.Function(ctx._name(name), *([z3.IntSort()] * nd + [sort]))
        fn = lambda idx: f(*[S.z(i) for i in idx]) if nd else f()
    return Arr.from_fn(shape, dtype, fn, origin=origin)
