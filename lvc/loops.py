"""Loops over iterables of symbolic length: inductive invariants from the side-car contracts.

A loop is identified by (qualified function name, ordinal of the `for` statement in the
function body, in source order).  The contract supplies a LoopSpec:

    LoopSpec(vars=[names modified by the loop],
             state=lambda ctx, env, k: {name: value}          # functional invariant, or
             inv=lambda ctx, env, k: formula, havoc=lambda ctx, env, k: {name: fresh value})

Obligations generated:  <fn>::loop<n>.init, <fn>::loop<n>.preserve  (and the invariant at exit is
assumed for the continuation).  The body path ends after `preserve` has been recorded.
"""
import ast

import z3

from . import sym as S
from .sym import Unsupported
from .values import Arr, PyList, Seq


class LoopSpec:
    def __init__(self, vars, state=None, inv=None, havoc=None, elem=None):
        self.vars = vars
        self.state = state
        self.inv = inv
        self.havoc = havoc
        self.elem = elem


def is_symbolic_iterable(ctx, it):
    from .nplib import SymRange
    if isinstance(it, (Seq, SymRange)):
        return True
    if isinstance(it, Arr) and it.ndim >= 1 and S.is_z3(it.shape[0]):
        return True
    return False


def loop_ordinal(func, st):
    n = 0
    for node in ast.walk(func.node):
        if isinstance(node, ast.For):
            if node is st:
                return n
            n += 1
    # ast.walk is breadth-first; use source order instead
    return None


def source_order_ordinal(func, st):
    fors = sorted([n for n in ast.walk(func.node) if isinstance(n, ast.For)], key=lambda n: (n.lineno, n.col_offset))
    return fors.index(st)


def exec_symbolic_for(interp, ctx, st, it, fr):
    from .nplib import SymRange
    from .interp import PathEnd, _Break, _Continue
    from . import prove
    func = fr.func
    if func is None:
        raise Unsupported('symbolic loop outside a function')
    ordinal = source_order_ordinal(func, st)
    c = ctx.world.contract(func.qualname)
    spec = None if c is None else c.loops.get(ordinal)
    if spec is None:
        raise Unsupported('loop %d of %s iterates a symbolic number of times and has no invariant'
                          % (ordinal, func.qualname))
    if isinstance(it, SymRange):
        lo, hi = it.lo, it.hi
        if it.step != 1:
            raise Unsupported('symbolic range step')
        elem = lambda k: k
    elif isinstance(it, Seq):
        lo, hi = 0, it.length
        elem = it.elem
    else:
        from . import arrops
        lo, hi = 0, it.shape[0]
        elem = lambda k: arrops.getitem(ctx, it, k)
    name = '%s::loop%d' % (func.qualname.replace('lentil.', ''), ordinal)
    n = S.max_(S.sub(hi, lo), 0)

    def install(k):
        if spec.state is not None:
            vals = spec.state(ctx, fr.env, k)
            for v, x in vals.items():
                fr.env[v] = x
        else:
            vals = spec.havoc(ctx, fr.env, k)
            for v, x in vals.items():
                fr.env[v] = x
            ctx.assume(spec.inv(ctx, fr.env, k))

    def check(tag, k):
        if spec.state is not None:
            want = spec.state(ctx, dict(fr.env), k)
            for v, x in want.items():
                prove.oblige_equal(ctx, '%s.%s[%s]' % (name, tag, v), fr.env.get(v), x)
        else:
            ctx.oblige('%s.%s' % (name, tag), spec.inv(ctx, fr.env, k), kind='loop')

    # 1. invariant holds on entry (k = 0 iterations done)
    check('init', 0)
    # 2. choose: body path (arbitrary iteration) or exit path
    in_body = ctx.fresh_bool('%s.in_body' % name)
    if ctx.branch(in_body):
        k = ctx.fresh_int('%s.k' % name)
        ctx.assume(z3.And(k >= 0, S.z(S.lt(k, n)) if not isinstance(S.lt(k, n), bool) else z3.BoolVal(S.lt(k, n))))
        install(k)
        interp.assign(ctx, st.target, elem(S.add(lo, k)), fr)
        try:
            interp.exec_block(ctx, st.body, fr)
        except _Continue:
            pass
        except _Break:
            raise Unsupported('break in a loop with invariant')
        check('preserve', S.add(k, 1))
        raise PathEnd('loop-body')
    install(n)
    interp.exec_block(ctx, st.orelse, fr)
