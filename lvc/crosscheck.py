"""Engine vs CPython cross-check (DESIGN 5): for every path of every function under contract, models
of the path condition are turned into concrete inputs, the *real* function is run natively and its
outcome is checked against the same contract clauses.  On an unchanged, verified tree every sample
must agree: a disagreement means the engine's semantics (or a contract/model) misrepresents the real
code -> checker error, never a property violation."""
import sys
import time

import z3

from . import prove, replay


def to_int_args(terms, limit=200):
    """Arguments of every floor/round (to_int) in the given terms whose value is not an integer by
    construction: the places where binary floating point and the engine's real arithmetic may legitimately
    fall on different sides of a discontinuity."""
    seen, out, stack = set(), [], [t for t in terms if z3.is_expr(t)]
    while stack and len(out) < limit:
        t = stack.pop()
        if t.get_id() in seen:
            continue
        seen.add(t.get_id())
        if z3.is_quantifier(t):
            continue
        if z3.is_app(t):
            if t.decl().kind() == z3.Z3_OP_TO_INT and not z3.is_rational_value(t.arg(0)):
                out.append(t.arg(0))
            stack.extend(t.children())
    return out


def near_boundary(m, args, eps=1e-6):
    for a in args:
        try:
            v = m.eval(a, model_completion=True)
            if z3.is_rational_value(v):
                x = v.numerator_as_long() / v.denominator_as_long()
            elif z3.is_algebraic_value(v):
                x = float(v.approx(12).as_fraction())
            else:
                continue
        except Exception:
            continue
        # integers are the discontinuities of floor/ceil, half-integers those of round
        if abs(2 * x - round(2 * x)) < eps:
            return True
    return False


def sample_models(pc, k, seed, away=()):
    out = []
    s = z3.Solver()
    s.set('timeout', 5000)
    s.set('random_seed', seed)
    for p in pc:
        s.add(p)
    if s.check() != z3.sat:
        return out
    # prefer samples whose floor/round arguments are well inside a cell (fractional part of 2x in [0.2, 0.8])
    s.push()
    for a in list(away)[:12]:
        fr = 2 * a - z3.ToReal(z3.ToInt(2 * a))
        s.add(fr >= z3.RealVal('1/5'), fr <= z3.RealVal('4/5'))
    if s.check() != z3.sat:
        s.pop()
    consts = None
    for B in (4, 9):
        for _ in range(k):
            s.push()
            if s.check() != z3.sat:
                s.pop()
                break
            m = s.model()
            if consts is None:
                consts = [d() for d in m.decls() if d.arity() == 0 and d.range() == z3.IntSort()]
            for c in consts:
                s.add(c >= -B, c <= B)
            if s.check() != z3.sat:
                s.pop()
                break
            m = s.model()
            out.append(m)
            s.pop()
            # block this assignment of the integer constants
            if consts:
                s.add(z3.Or(*[c != m.eval(c, model_completion=True) for c in consts]))
            if len(out) >= k:
                return out
    return out


def crosscheck_function(world, contract, per_path=2, seed=0, max_paths=60):
    results = prove.verify_function(world, contract)
    stats = {'function': contract.qualname, 'paths': 0, 'samples': 0, 'agree': 0, 'disagree': [], 'skipped': 0}
    for pr in results[:max_paths]:
        if pr.status != 'ok' or pr.replay_state is None:
            continue
        stats['paths'] += 1
        pc = list(pr.pc)
        # known-finding witnesses are excluded from the samples (they are reported by the checks)
        for ob in pr.obligations:
            for w in (ob.info.get('witness') or {}).values():
                pc.append(z3.Not(w))
            break
        terms = list(pr.pc)
        for ob in pr.obligations:
            terms.append(ob.formula)
        cuts = to_int_args(terms)
        # symbols that occur in the quantified axioms of this path (class invariants such as "binary mask",
        # "increasing grid") must keep the values the model gives them: only free data is diversified
        protected = set()
        axioms = []
        if pr.obligations:
            have = set(p_.get_id() for p_ in pr.pc)
            axioms = [a for a in pr.obligations[0].pc if a.get_id() not in have]
            stack = list(axioms)
            seen = set()
            while stack:
                e = stack.pop()
                if e.get_id() in seen:
                    continue
                seen.add(e.get_id())
                if z3.is_quantifier(e):
                    stack.append(e.body())
                elif z3.is_app(e):
                    if e.decl().kind() == z3.Z3_OP_UNINTERPRETED:
                        protected.add(e.decl().name())
                    stack.extend(e.children())
        # sample with the axioms when the solver can handle them (quantifiers), else from the path condition alone
        models = sample_models(pc + axioms, per_path, seed, away=cuts) if axioms else []
        if not models:
            models = sample_models(pc, per_path, seed, away=cuts)
        for m in models:
            if near_boundary(m, cuts):
                # an input on a floor/round discontinuity: float and real arithmetic may differ there
                # (assumption "machine arithmetic treated as mathematical"); not a semantic disagreement
                stats['skipped'] += 1
                stats['float_boundary'] = stats.get('float_boundary', 0) + 1
                continue
            import random
            replay.DIVERSIFY, replay._DIVERSE, replay.PROTECTED = random.Random(seed * 7919 + stats['samples']), {}, protected
            try:
                r = replay.replay_with_model(world, contract, pr.replay_state, pr.pc, m, axioms=axioms)
            finally:
                replay.DIVERSIFY, replay._DIVERSE, replay.PROTECTED = None, {}, set()
            stats['samples'] += 1
            if r.get('status') == 'not-confirmed':
                stats['agree'] += 1
            elif r.get('status') == 'confirmed':
                stats['disagree'].append({'inputs': r.get('inputs'), 'failed': r.get('failed_on_real_code'),
                                          'native': r.get('native_outcome')})
            else:
                stats['skipped'] += 1
    return stats
