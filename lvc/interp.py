"""Path-splitting symbolic interpreter for the Python subset used by lentil (DESIGN 3.1-3.3).

Exploration is by re-execution: a path is identified by its list of branch decisions; when a
symbolic branch is met beyond the known prefix both sides are checked for feasibility and the
alternative prefix is queued.  Heap objects are ordinary Python objects of one execution.
"""
import ast
import itertools
from fractions import Fraction

import z3

from . import sym as S
from .sym import Unsupported
from .values import Arr, Cell, Ax, Obj, PyList, PyDict, Str, Seq, select
from .repo import FuncInfo, ClassInfo, ModuleInfo


class Raised(Exception):
    """The subject program raised exception `exc` (class name)."""

    def __init__(self, exc, msg=None):
        Exception.__init__(self, exc)
        self.exc = exc
        self.msg = msg


class Infeasible(Exception):
    """The current path condition is unsatisfiable."""


class PathEnd(Exception):
    """Stop this path quietly (used by loop-invariant body paths)."""

    def __init__(self, tag='end'):
        self.tag = tag


class _Return(Exception):
    def __init__(self, value):
        self.value = value


class _Break(Exception):
    pass


class _Continue(Exception):
    pass


class ModuleRef:
    """A module seen by the subject program: repo module or library namespace."""

    def __init__(self, dotted, info=None):
        self.dotted = dotted
        self.info = info

    def __repr__(self):
        return '<module %s>' % self.dotted


class BoundMethod:
    def __init__(self, obj, func):
        self.obj = obj
        self.func = func


class Builtin:
    """A library function modelled in Python: fn(ctx, *args, **kwargs)."""

    def __init__(self, name, fn):
        self.name = name
        self.fn = fn

    def __repr__(self):
        return '<builtin %s>' % self.name


class ClassRef:
    """A library class / type object used only for isinstance and construction."""

    def __init__(self, name):
        self.name = name

    def __repr__(self):
        return '<type %s>' % self.name


class Closure:
    def __init__(self, node, env, module):
        self.node = node
        self.env = env
        self.module = module


class Obligation:
    def __init__(self, name, pc, formula, kind='ensures', info=None):
        self.name = name
        self.pc = list(pc)
        self.formula = formula
        self.kind = kind
        self.info = info or {}


SOLVER_TIMEOUT_MS = 10000


class Ctx:
    """One path execution."""

    def __init__(self, world, prefix=()):
        self.world = world            # World: repo, contracts, library
        self.prefix = list(prefix)
        self.trace = []
        self.alts = []
        self.pc = []
        self.obligations = []
        self.assumptions = set()      # names of library contracts / axioms used on this path
        self.inlined = set()
        self.modelled = set()
        self.counter = {}
        self.verifying = None         # qualname of the function whose body is being verified
        self.no_model = set()         # functions that must be executed by body
        self.depth = 0
        self._solver = None
        self._solver_len = 0
        self.events = []              # writes to heap objects: (target, description)
        self.loop_specs = {}
        self.cache_known = {}
        self.axioms = []
        self.soft = set()
        self.named_mark = len(S.NAMED_SUMS)   # finite sums named (as divisors) on this path come after this

    # ---- fresh symbols --------------------------------------------------------------
    def _name(self, base):
        n = self.counter.get(base, 0)
        self.counter[base] = n + 1
        return base if n == 0 else '%s!%d' % (base, n)

    def fresh_int(self, base='i'):
        return z3.Int(self._name(base))

    def fresh_real(self, base='x'):
        return z3.Real(self._name(base))

    def fresh_bool(self, base='b'):
        return z3.Bool(self._name(base))

    def fresh_cx(self, base='c'):
        n = self._name(base)
        return S.Cx(z3.Real(n + '.re'), z3.Real(n + '.im'))

    def fresh_fn(self, base, *sorts):
        return z3.Function(self._name(base), *sorts)

    # ---- solver ---------------------------------------------------------------------
    def solver(self):
        if self._solver is None:
            self._solver = z3.Solver()
            self._solver.set('timeout', SOLVER_TIMEOUT_MS)
            self._solver_len = 0
        while self._solver_len < len(self.pc):
            p_ = self.pc[self._solver_len]
            if p_.get_id() not in self.soft:       # nonlinear side facts (sqrt) stay out of feasibility queries
                self._solver.add(p_)
            self._solver_len += 1
        return self._solver

    def sat(self, cond):
        s = self.solver()
        s.push()
        s.add(cond)
        r = s.check()
        s.pop()
        return r != z3.unsat       # unknown is treated as feasible (sound)

    def known(self, cond, timeout_ms=None):
        """True iff cond is valid under the path condition (False also on unknown)."""
        if isinstance(cond, bool):
            return cond
        key = (len(self.pc), cond.get_id())
        hit = self.cache_known.get(key)
        if hit is not None and hit[1].eq(cond):
            return hit[0]
        s = self.solver()
        s.push()
        s.add(z3.Not(cond))
        if timeout_ms:
            s.set('timeout', timeout_ms)
        r = s.check()
        if timeout_ms:
            s.set('timeout', SOLVER_TIMEOUT_MS)
        s.pop()
        res = (r == z3.unsat)
        self.cache_known[key] = (res, cond)     # keep the term alive: z3 reuses ids of freed terms
        return res

    def assume(self, cond, why=None, axiom=False, soft=False):
        """axiom=True: a (typically quantified) fact that is handed to the prover with every obligation
        but kept out of the path-feasibility queries of the explorer (sound: the explorer then
        considers at least the feasible paths).  soft=True: the same, but the fact keeps its chronological
        place in the path condition of the obligations (used for the nonlinear sqrt facts: the solver's
        behaviour on the nonlinear obligations is sensitive to the order of the assertions)."""
        if why:
            self.assumptions.add(why)
        if isinstance(cond, bool):
            if not cond:
                raise Infeasible()
            return
        if axiom:
            self.axioms.append(cond)
            return
        if soft:
            self.soft.add(cond.get_id())       # cond itself is held by self.pc: the id cannot be reused
        self.pc.append(cond)

    def branch(self, cond):
        cond = S.truth(cond) if not S.is_bool(cond) else cond
        if isinstance(cond, bool):
            return cond
        i = len(self.trace)
        if i < len(self.prefix):
            v = self.prefix[i]
        else:
            t = self.sat(cond)
            f = self.sat(z3.Not(cond))
            if t and f:
                v = True
                self.alts.append(self.trace + [False])
            elif t:
                v = True
            elif f:
                v = False
            else:
                raise Infeasible()
        self.trace.append(v)
        self.pc.append(cond if v else z3.Not(cond))
        return v

    def oblige(self, name, formula, kind='ensures', info=None):
        if isinstance(formula, bool):
            formula = z3.BoolVal(formula)
        self.link_named_sums()
        self.obligations.append(Obligation(name, self.pc + self.axioms, formula, kind, info))

    def link_named_sums(self):
        """Two finite sums the code named separately (e.g. np.sum of the same array computed twice) get their
        symbols equated when their definitions are provably equal (Sigma-extensionality) - otherwise an
        equivalent re-formulation of the code could look like a counterexample."""
        named = list(S.NAMED_SUMS.values())[self.named_mark:]
        done = getattr(self, '_linked', 0)
        if len(named) <= done or len(named) < 2:
            self._linked = len(named)
            return
        self._linked = len(named)           # set first: the check below emits obligations in a scratch context
        from . import prove
        for k in range(max(done, 1), len(named)):
            vk, sk = named[k]
            for j in range(k):
                vj, sj = named[j]
                sub = Ctx(self.world, [])
                sub.pc, sub.soft, sub.axioms = list(self.pc), set(self.soft), list(self.axioms)
                sub.counter, sub.named_mark, sub._linked = self.counter, self.named_mark, len(named)
                try:
                    prove.sum_zero(sub, 'same', S.sub(sk, sj))
                except (Unsupported, TypeError):
                    continue
                if sub.obligations and all(prove.discharge(o, 2000, quick=True).status == 'discharged' for o in sub.obligations):
                    self.axioms.append(vk == vj)
                    break

    def require(self, name, cond, exc=None):
        """A safety condition of a library operation.  With `exc` the failure is an outcome
        (the subject raises); otherwise it is recorded as an obligation and then assumed."""
        if isinstance(cond, bool) and cond:
            return
        if exc is not None:
            if not self.branch(cond):
                raise Raised(exc, name)
            return
        self.oblige(name, cond, kind='safe')
        self.assume(cond)

    def write_event(self, target, desc):
        self.events.append((target, desc))
        if hasattr(target, 'writes'):
            target.writes.append(desc)

    # ---- evaluation -----------------------------------------------------------------
    def call(self, f, args, kwargs=None):
        return self.world.interp.call_value(self, f, list(args), dict(kwargs or {}))


class World:
    """Repository + contracts + library models."""

    def __init__(self, repo):
        self.repo = repo
        self.contracts = {}
        self.library = {}
        self.types = {}
        self.interp = Interp(self)
        self.global_cache = {}

    def contract(self, qualname):
        return self.contracts.get(qualname)


class Interp:
    def __init__(self, world):
        self.world = world

    # =================================================================================
    # names
    def module_ref(self, dotted):
        info = None
        if dotted == 'lentil' or dotted.startswith('lentil.'):
            info = self.world.repo.module(dotted)
        return ModuleRef(dotted, info)

    def lookup_global(self, ctx, module, name):
        if name in module.functions:
            return module.functions[name]
        if name in module.classes:
            return module.classes[name]
        if name in module.imports:
            imp = module.imports[name]
            if imp[0] == 'module':
                return self.module_ref(imp[1])
            if imp[1] == 'lentil' or imp[1].startswith('lentil.'):
                sub = self.world.repo.module(imp[1] + '.' + imp[2])      # from lentil import fourier
                if sub is not None:
                    return ModuleRef(imp[1] + '.' + imp[2], sub)
            return self.module_attr(ctx, self.module_ref(imp[1]), imp[2])
        if name in module.assigns:
            key = (module.name, name)
            cache = self.world.global_cache
            if key not in cache:
                cache[key] = self.eval(ctx, module.assigns[name], Frame(module, {}))
            v = cache[key]
            return v
        b = self.world.library.get('builtins.' + name)
        if b is not None:
            return b
        raise Unsupported('unresolved name %s in %s' % (name, module.name))

    def module_attr(self, ctx, mref, name):
        if mref.info is not None:
            m = mref.info
            if name in m.functions or name in m.classes or name in m.assigns or name in m.imports:
                return self.lookup_global(ctx, m, name)
            sub = self.world.repo.module(mref.dotted + '.' + name)
            if sub is not None:
                return ModuleRef(mref.dotted + '.' + name, sub)
            raise Raised('AttributeError', '%s.%s' % (mref.dotted, name))
        dotted = mref.dotted + '.' + name
        lib = self.world.library
        if dotted in lib:
            return lib[dotted]
        if mref.dotted == 'numpy.random' and name[:1].islower():
            # any other module-level numpy.random function draws from (and advances) the hidden global state
            def _global(ctx_, *a, **k):
                ctx_.events.append(('global-rng', dotted))
                ctx_.assumptions.add('lib[abstract]:%s (global random state)' % dotted)
                return ctx_.fresh_int('global_rng_int') if 'int' in name else ctx_.fresh_real('global_rng')
            return Builtin(dotted, _global)
        if any(k.startswith(dotted + '.') for k in lib):
            return ModuleRef(dotted)
        raise Unsupported('library name %s not modelled' % dotted)

    # =================================================================================
    # calls
    def call_value(self, ctx, f, args, kwargs):
        if isinstance(f, FuncInfo):
            return self.call_function(ctx, f, args, kwargs)
        if isinstance(f, BoundMethod):
            return self.call_value(ctx, f.func, [f.obj] + args, kwargs)
        if isinstance(f, Builtin):
            return f.fn(ctx, *args, **kwargs)
        if isinstance(f, ClassInfo):
            return self.instantiate(ctx, f, args, kwargs)
        if isinstance(f, Closure):
            return self.call_closure(ctx, f, args, kwargs)
        if isinstance(f, ClassRef):
            ctor = self.world.library.get('new:' + f.name)
            if ctor is None:
                raise Unsupported('construct %s' % f.name)
            return ctor.fn(ctx, *args, **kwargs)
        if callable(f) and getattr(f, '_lvc_native', False):
            return f(ctx, *args, **kwargs)
        if type(f).__name__ == 'InterpObj':
            from .nplib import _interp_call
            return _interp_call(ctx, f, *args)
        raise Unsupported('call of %r' % (f,))

    def bind(self, ctx, func, args, kwargs, frame_module):
        a = func.node.args
        names = [x.arg for x in a.posonlyargs + a.args]
        env = {}
        args = list(args)
        if len(args) > len(names) and a.vararg is None:
            raise Raised('TypeError', 'too many positional arguments for %s' % func.qualname)
        for n, v in zip(names, args):
            env[n] = v
        if a.vararg is not None:
            env[a.vararg.arg] = tuple(args[len(names):])
        defaults = a.defaults
        dnames = names[len(names) - len(defaults):] if defaults else []
        kwonly = [x.arg for x in a.kwonlyargs]
        extra = {}
        for k, v in kwargs.items():
            if k in names or k in kwonly:
                if k in env:
                    raise Raised('TypeError', 'multiple values for %s' % k)
                env[k] = v
            elif a.kwarg is not None:
                extra[k] = v
            else:
                raise Raised('TypeError', '%s() got an unexpected keyword argument %s' % (func.qualname, k))
        fr = Frame(func.module, {})
        for n, d in zip(dnames, defaults):
            if n not in env:
                env[n] = self.eval(ctx, d, fr)
        for n, d in zip(kwonly, a.kw_defaults):
            if n not in env and d is not None:
                env[n] = self.eval(ctx, d, fr)
        for n in names + kwonly:
            if n not in env:
                raise Raised('TypeError', '%s() missing argument %s' % (func.qualname, n))
        if a.kwarg is not None:
            env[a.kwarg.arg] = PyDict(extra)
        return env

    def call_function(self, ctx, func, args, kwargs):
        q = func.qualname + ('.setter' if func.is_setter else '')
        c = self.world.contract(q)
        cm = None if c is None else (c.call_model or c.model)
        if cm is not None and q not in ctx.no_model and q != ctx.verifying:
            env = self.bind(ctx, func, args, kwargs, func.module)
            ctx.modelled.add(q)
            if c.pre is not None:
                ctx.oblige('call->%s::requires' % q, c.pre(ctx, env), kind='call-pre',
                           info={'callee': q})
                ctx.assume(c.pre(ctx, env))
            return cm(ctx, env)
        if c is None:
            ctx.inlined.add(q)
        env = self.bind(ctx, func, args, kwargs, func.module)
        return self.run_body(ctx, func, env)

    def run_body(self, ctx, func, env):
        if ctx.depth > 40:
            raise Unsupported('call depth')
        fr = Frame(func.module, env, func)
        ctx.depth += 1
        try:
            self.exec_block(ctx, func.node.body, fr)
        except _Return as r:
            return r.value
        finally:
            ctx.depth -= 1
        return None

    def call_closure(self, ctx, clo, args, kwargs):
        node = clo.node
        env = dict(clo.env)
        names = [a.arg for a in node.args.args]
        for n, v in zip(names, args):
            env[n] = v
        env.update(kwargs)
        fr = Frame(clo.module, env)
        return self.eval(ctx, node.body, fr)

    def instantiate(self, ctx, cls, args, kwargs):
        c = self.world.contract(cls.qualname + '.__init__')
        obj = Obj(cls)
        init = cls.find(self.world.repo, '__init__')
        if init is not None:
            self.call_function(ctx, init, [obj] + list(args), kwargs)
        return obj

    # =================================================================================
    # statements
    def exec_block(self, ctx, stmts, fr):
        for st in stmts:
            self.exec_stmt(ctx, st, fr)

    def exec_stmt(self, ctx, st, fr):
        m = getattr(self, 'st_' + type(st).__name__, None)
        if m is None:
            raise Unsupported('statement %s' % type(st).__name__)
        return m(ctx, st, fr)

    def st_Expr(self, ctx, st, fr):
        if isinstance(st.value, ast.Constant) and isinstance(st.value.value, str):
            return
        self.eval(ctx, st.value, fr)

    def st_Pass(self, ctx, st, fr):
        pass

    def st_Return(self, ctx, st, fr):
        raise _Return(self.eval(ctx, st.value, fr) if st.value is not None else None)

    def st_Break(self, ctx, st, fr):
        raise _Break()

    def st_Continue(self, ctx, st, fr):
        raise _Continue()

    def st_Delete(self, ctx, st, fr):
        for t in st.targets:
            if isinstance(t, ast.Name):
                fr.env.pop(t.id, None)
            else:
                raise Unsupported('del of non-name')

    def st_Assign(self, ctx, st, fr):
        v = self.eval(ctx, st.value, fr)
        for t in st.targets:
            self.assign(ctx, t, v, fr)

    def st_AnnAssign(self, ctx, st, fr):
        if st.value is not None:
            self.assign(ctx, st.target, self.eval(ctx, st.value, fr), fr)

    def st_AugAssign(self, ctx, st, fr):
        from . import arrops
        t = st.target
        rhs = self.eval(ctx, st.value, fr)
        if isinstance(t, ast.Name):
            cur = self.load_name(ctx, t.id, fr)
            if isinstance(cur, Arr):
                # in-place on the array object: x += v  ==  x[...] = x[...] op v
                arrops.setitem(ctx, cur, Ellipsis, rhs, op=type(st.op).__name__)
                return
            if isinstance(cur, PyList) and isinstance(st.op, ast.Add):
                cur.items.extend(self.iterate(ctx, rhs))
                ctx.write_event(cur, 'extend')
                return
            fr.env[t.id] = self.binop(ctx, type(st.op).__name__, cur, rhs)
        elif isinstance(t, ast.Subscript):
            base = self.eval(ctx, t.value, fr)
            idx = self.eval_index(ctx, t.slice, fr)
            if isinstance(base, Arr):
                arrops.setitem(ctx, base, idx, rhs, op=type(st.op).__name__)
            else:
                cur = self.getitem(ctx, base, idx)
                self.setitem(ctx, base, idx, self.binop(ctx, type(st.op).__name__, cur, rhs))
        elif isinstance(t, ast.Attribute):
            obj = self.eval(ctx, t.value, fr)
            cur = self.getattr(ctx, obj, t.attr)
            if isinstance(cur, Arr):
                arrops.setitem(ctx, cur, Ellipsis, rhs, op=type(st.op).__name__)
                # numpy in-place then re-assign through the property setter (x.opd -= y)
                self.setattr(ctx, obj, t.attr, cur)
            else:
                self.setattr(ctx, obj, t.attr, self.binop(ctx, type(st.op).__name__, cur, rhs))
        else:
            raise Unsupported('augassign target')

    def assign(self, ctx, t, v, fr):
        if isinstance(t, ast.Name):
            fr.env[t.id] = v
        elif isinstance(t, (ast.Tuple, ast.List)):
            items = self.iterate(ctx, v)
            if len(items) != len(t.elts):
                raise Raised('ValueError', 'unpack')
            for e, x in zip(t.elts, items):
                self.assign(ctx, e, x, fr)
        elif isinstance(t, ast.Attribute):
            obj = self.eval(ctx, t.value, fr)
            self.setattr(ctx, obj, t.attr, v)
        elif isinstance(t, ast.Subscript):
            base = self.eval(ctx, t.value, fr)
            idx = self.eval_index(ctx, t.slice, fr)
            self.setitem(ctx, base, idx, v)
        else:
            raise Unsupported('assign target %s' % type(t).__name__)

    def st_If(self, ctx, st, fr):
        c = self.eval(ctx, st.test, fr)
        if ctx.branch(self.truthy(ctx, c)):
            self.exec_block(ctx, st.body, fr)
        else:
            self.exec_block(ctx, st.orelse, fr)

    def st_Assert(self, ctx, st, fr):
        c = self.eval(ctx, st.test, fr)
        if not ctx.branch(self.truthy(ctx, c)):
            raise Raised('AssertionError')

    def st_Raise(self, ctx, st, fr):
        if st.exc is None:
            e = fr.env.get('__exc__')
            raise Raised(e or 'Exception')
        node = st.exc
        if isinstance(node, ast.Call):
            for a in node.args:
                self.eval(ctx, a, fr)     # messages may touch attributes (and fail)
            node = node.func
        name = ast.unparse(node)
        if name in fr.env and isinstance(fr.env[name], ExcValue):
            raise Raised(fr.env[name].exc)
        raise Raised(name.split('.')[-1])

    def st_Try(self, ctx, st, fr):
        try:
            self.exec_block(ctx, st.body, fr)
        except Raised as r:
            for h in st.handlers:
                names = []
                if h.type is None:
                    names = None
                elif isinstance(h.type, ast.Tuple):
                    names = [ast.unparse(e).split('.')[-1] for e in h.type.elts]
                else:
                    names = [ast.unparse(h.type).split('.')[-1]]
                if names is None or exc_matches(r.exc, names):
                    if h.name:
                        fr.env[h.name] = ExcValue(r.exc)
                    fr.env['__exc__'] = r.exc
                    self.exec_block(ctx, h.body, fr)
                    break
            else:
                raise
        else:
            self.exec_block(ctx, st.orelse, fr)
        finally:
            if st.finalbody:
                self.exec_block(ctx, st.finalbody, fr)

    def st_With(self, ctx, st, fr):
        for item in st.items:
            self.eval(ctx, item.context_expr, fr)
        self.exec_block(ctx, st.body, fr)

    def st_For(self, ctx, st, fr):
        it = self.eval(ctx, st.iter, fr)
        from . import loops
        if loops.is_symbolic_iterable(ctx, it):
            return loops.exec_symbolic_for(self, ctx, st, it, fr)
        items = self.iterate(ctx, it)
        broke = False
        for x in items:
            self.assign(ctx, st.target, x, fr)
            try:
                self.exec_block(ctx, st.body, fr)
            except _Break:
                broke = True
                break
            except _Continue:
                continue
        if not broke:
            self.exec_block(ctx, st.orelse, fr)

    WHILE_FUEL = 24

    def st_While(self, ctx, st, fr):
        # exact unrolling, no invariant guessed: every evaluation of the test is a branch point like `if`; a path
        # that is still inside the loop after WHILE_FUEL iterations is outside the engine's reach (undecided)
        n = 0
        broke = False
        while True:
            c = self.eval(ctx, st.test, fr)
            if not ctx.branch(self.truthy(ctx, c)):
                break
            n += 1
            if n > self.WHILE_FUEL:
                raise Unsupported('while loop: more than %d iterations on one path' % self.WHILE_FUEL)
            try:
                self.exec_block(ctx, st.body, fr)
            except _Break:
                broke = True
                break
            except _Continue:
                continue
        if not broke:
            self.exec_block(ctx, st.orelse, fr)

    def st_FunctionDef(self, ctx, st, fr):
        raise Unsupported('nested function')

    def st_Import(self, ctx, st, fr):
        for a in st.names:
            fr.env[a.asname or a.name.split('.')[0]] = self.module_ref(a.name if a.asname else a.name.split('.')[0])

    # =================================================================================
    # expressions
    def eval(self, ctx, node, fr):
        m = getattr(self, 'ex_' + type(node).__name__, None)
        if m is None:
            raise Unsupported('expression %s' % type(node).__name__)
        return m(ctx, node, fr)

    def ex_Constant(self, ctx, node, fr):
        v = node.value
        if isinstance(v, float):
            return S.frac(v)
        if isinstance(v, complex):
            return S.Cx(S.frac(v.real), S.frac(v.imag))
        return v

    def load_name(self, ctx, name, fr):
        if name in fr.env:
            return fr.env[name]
        return self.lookup_global(ctx, fr.module, name)

    def ex_Name(self, ctx, node, fr):
        return self.load_name(ctx, node.id, fr)

    def ex_Tuple(self, ctx, node, fr):
        out = []
        for e in node.elts:
            if isinstance(e, ast.Starred):
                out.extend(self.iterate(ctx, self.eval(ctx, e.value, fr)))
            else:
                out.append(self.eval(ctx, e, fr))
        return tuple(out)

    def ex_List(self, ctx, node, fr):
        return PyList(self.ex_Tuple(ctx, node, fr))

    def ex_Set(self, ctx, node, fr):
        return frozenset(self.ex_Tuple(ctx, node, fr))

    def ex_Dict(self, ctx, node, fr):
        d = {}
        for k, v in zip(node.keys, node.values):
            d[hashable(self.eval(ctx, k, fr))] = self.eval(ctx, v, fr)
        return PyDict(d)

    def ex_JoinedStr(self, ctx, node, fr):
        for v in node.values:
            if isinstance(v, ast.FormattedValue):
                self.eval(ctx, v.value, fr)
        return Str()

    def ex_Lambda(self, ctx, node, fr):
        return Closure(node, dict(fr.env), fr.module)

    def ex_IfExp(self, ctx, node, fr):
        c = self.eval(ctx, node.test, fr)
        c = self.truthy(ctx, c)
        if isinstance(c, bool):
            return self.eval(ctx, node.body if c else node.orelse, fr)
        if ctx.branch(c):
            return self.eval(ctx, node.body, fr)
        return self.eval(ctx, node.orelse, fr)

    def ex_BoolOp(self, ctx, node, fr):
        is_and = isinstance(node.op, ast.And)
        v = None
        for i, e in enumerate(node.values):
            v = self.eval(ctx, e, fr)
            if i == len(node.values) - 1:
                return v
            t = self.truthy(ctx, v)
            t = ctx.branch(t)
            if is_and and not t:
                return v if not S.is_z3(v) else False
            if (not is_and) and t:
                return v if not S.is_z3(v) else True
        return v

    def ex_UnaryOp(self, ctx, node, fr):
        from . import arrops
        v = self.eval(ctx, node.operand, fr)
        if isinstance(node.op, ast.Not):
            return S.not_(self.truthy(ctx, v))
        if isinstance(node.op, ast.USub):
            if isinstance(v, Arr):
                return arrops.elementwise(ctx, S.neg, [v])
            return S.neg(v)
        if isinstance(node.op, ast.UAdd):
            return v
        if isinstance(node.op, ast.Invert):
            if isinstance(v, Arr) and v.dtype == 'bool':
                return arrops.elementwise(ctx, S.not_, [v], dtype='bool')
            if S.is_bool(v):
                raise Unsupported('~ on python bool')
            return S.sub(S.neg(v), 1)
        raise Unsupported('unary op')

    def ex_BinOp(self, ctx, node, fr):
        a = self.eval(ctx, node.left, fr)
        b = self.eval(ctx, node.right, fr)
        return self.binop(ctx, type(node.op).__name__, a, b)

    def binop(self, ctx, op, a, b):
        from . import arrops
        if isinstance(a, (PyList, tuple)) and isinstance(b, (PyList, tuple)) and op == 'Add':
            if isinstance(a, tuple) and isinstance(b, tuple):
                return a + b
            if isinstance(a, PyList) and isinstance(b, PyList):
                return PyList(a.items + b.items)
            raise Raised('TypeError', 'concatenate list and tuple')
        if isinstance(a, (PyList, tuple)) and S.is_int(b) and op == 'Mult':
            if S.is_z3(b):
                raise Unsupported('list * symbolic')
            items = (a.items if isinstance(a, PyList) else list(a)) * b
            return PyList(items) if isinstance(a, PyList) else tuple(items)
        if isinstance(a, Obj) or isinstance(b, Obj):
            return self.obj_binop(ctx, op, a, b)
        if isinstance(a, arrops.Gather) or isinstance(b, arrops.Gather):
            return arrops.gather_binop(ctx, op, a, b)
        if isinstance(a, (Arr, PyList, tuple)) or isinstance(b, (Arr, PyList, tuple)):
            return arrops.binop(ctx, op, a, b)
        return self.scalar_binop(ctx, op, a, b)

    def scalar_binop(self, ctx, op, a, b):
        if a is None or b is None:
            raise Raised('TypeError', 'arithmetic with None')
        if isinstance(a, (str, Str)) or isinstance(b, (str, Str)):
            if op == 'Add':
                return Str()
            raise Unsupported('string arithmetic')
        if op == 'Add':
            return S.add(a, b)
        if op == 'Sub':
            return S.sub(a, b)
        if op == 'Mult':
            return S.mul(a, b)
        if op == 'Div':
            self.nonzero(ctx, b)
            return S.truediv(a, b)
        if op == 'FloorDiv':
            self.nonzero(ctx, b)
            return S.floordiv(a, b)
        if op == 'Mod':
            self.nonzero(ctx, b)
            return S.mod(a, b)
        if op == 'Pow':
            return self.power(ctx, a, b)
        if op == 'BitAnd':
            if S.is_bool(a) and S.is_bool(b):
                return S.and_(a, b)
            if S.is_int(b) and not S.is_z3(b) and b == 1:
                return S.mod(a, 2)
            raise Unsupported('bit and')
        if op == 'BitOr':
            if S.is_bool(a) and S.is_bool(b):
                return S.or_(a, b)
            raise Unsupported('bit or')
        raise Unsupported('binop %s' % op)

    def nonzero(self, ctx, b):
        """Division: a concrete 0 raises; a symbolic divisor yields ZeroDivisionError as an
        outcome for ints and an obligation-free real division for floats (numpy: inf/nan)."""
        if isinstance(b, S.Cx):
            return
        b = S.num(b)
        if not S.is_z3(b):
            if b == 0:
                raise Raised('ZeroDivisionError')
            return
        if not ctx.known(b != 0):
            if z3.is_real(b):
                # numpy float division by zero gives inf / nan with a warning, not an exception; the
                # idealised reals have no such values: the divisor is assumed non-zero (listed assumption)
                ctx.assume(b != 0, 'A2: a floating-point divisor is assumed non-zero (numpy would give inf/nan)')
            else:
                ctx.require('safe.div_nonzero', S.ne(b, 0))

    def power(self, ctx, a, b):
        lib = self.world.library.get('op.pow')
        return lib.fn(ctx, a, b)

    def obj_binop(self, ctx, op, a, b):
        names = {'Add': '__add__', 'Sub': '__sub__', 'Mult': '__mul__', 'Div': '__truediv__', 'Pow': '__pow__'}
        rnames = {'Add': '__radd__', 'Sub': '__rsub__', 'Mult': '__rmul__', 'Div': '__rtruediv__'}
        if isinstance(a, Obj) and op in names:
            m = a.cls.find(self.world.repo, names[op])
            if m is not None:
                return self.call_function(ctx, m, [a, b], {})
        if isinstance(b, Obj) and op in rnames:
            m = b.cls.find(self.world.repo, rnames[op])
            if m is not None:
                return self.call_function(ctx, m, [b, a], {})
            alias = b.cls.find(self.world.repo, rnames[op], 'class_attrs')
        raise Raised('TypeError', 'unsupported operand')

    def ex_Compare(self, ctx, node, fr):
        left = self.eval(ctx, node.left, fr)
        result = True
        for op, rn in zip(node.ops, node.comparators):
            right = self.eval(ctx, rn, fr)
            r = self.compare(ctx, type(op).__name__, left, right)
            if len(node.ops) == 1:
                return r
            result = S.and_(self.truthy(ctx, result), self.truthy(ctx, r))
            left = right
        return result

    def compare(self, ctx, op, a, b):
        from . import arrops
        if op == 'Is':
            return self.identical(a, b)
        if op == 'IsNot':
            return not self.identical(a, b)
        if op == 'In':
            return self.contains(ctx, b, a)
        if op == 'NotIn':
            return S.not_(self.contains(ctx, b, a))
        if isinstance(a, Obj) and op in ('Eq', 'NotEq'):
            m = a.cls.find(self.world.repo, '__eq__')
            if m is not None:
                r = self.call_function(ctx, m, [a, b], {})
                return r if op == 'Eq' else S.not_(self.truthy(ctx, r))
            return self.identical(a, b) if op == 'Eq' else not self.identical(a, b)
        if isinstance(a, arrops.Gather) or isinstance(b, arrops.Gather):
            return arrops.gather_binop(ctx, op, a, b)
        if isinstance(a, Arr) or isinstance(b, Arr):
            return arrops.binop(ctx, op, a, b)
        if isinstance(a, (tuple, PyList)) or isinstance(b, (tuple, PyList)):
            return self.seq_compare(ctx, op, a, b)
        if a is None or b is None or isinstance(a, (str, Str)) or isinstance(b, (str, Str)) \
                or a is Ellipsis or b is Ellipsis or isinstance(a, slice) or isinstance(b, slice):
            if op == 'Eq':
                return self.py_equal(a, b)
            if op == 'NotEq':
                return not self.py_equal(a, b)
            raise Raised('TypeError', 'ordering of non-numbers')
        if isinstance(a, S.Inf) or isinstance(b, S.Inf):
            return self.inf_compare(op, a, b)
        f = {'Lt': S.lt, 'LtE': S.le, 'Gt': S.gt, 'GtE': S.ge, 'Eq': S.eq, 'NotEq': S.ne}[op]
        return f(a, b)

    def inf_compare(self, op, a, b):
        if isinstance(a, S.Inf) and isinstance(b, S.Inf):
            return op in ('Eq', 'LtE', 'GtE')
        if isinstance(b, S.Inf):
            return op in ('Lt', 'LtE', 'NotEq')
        return op in ('Gt', 'GtE', 'NotEq')

    def py_equal(self, a, b):
        if isinstance(a, Str) or isinstance(b, Str):
            raise Unsupported('comparison with formatted string')
        if type(a) != type(b) and not (isinstance(a, (int, Fraction)) and isinstance(b, (int, Fraction))):
            return False
        return a == b

    def seq_compare(self, ctx, op, a, b):
        if not (isinstance(a, (tuple, PyList)) and isinstance(b, (tuple, PyList))):
            if op == 'Eq':
                return False
            if op == 'NotEq':
                return True
            raise Raised('TypeError', 'compare sequence with scalar')
        if isinstance(a, tuple) != isinstance(b, tuple):
            return op == 'NotEq'
        xs = a.items if isinstance(a, PyList) else list(a)
        ys = b.items if isinstance(b, PyList) else list(b)
        if op in ('Eq', 'NotEq'):
            if len(xs) != len(ys):
                return op == 'NotEq'
            r = True
            for x, y in zip(xs, ys):
                r = S.and_(r, self.truthy(ctx, self.compare(ctx, 'Eq', x, y)))
            return r if op == 'Eq' else S.not_(r)
        raise Unsupported('sequence ordering')

    def identical(self, a, b):
        if a is None or b is None:
            return a is b
        if isinstance(a, (bool, str)) or isinstance(b, (bool, str)):
            return type(a) == type(b) and a == b
        return a is b

    def contains(self, ctx, container, x):
        if isinstance(container, PyDict):
            return hashable(x) in container.d
        if isinstance(container, DictKeys):
            return hashable(x) in container.d.d
        if isinstance(container, (tuple, PyList, frozenset)):
            items = container.items if isinstance(container, PyList) else list(container)
            r = False
            for y in items:
                if isinstance(x, slice) or isinstance(y, slice) or x is Ellipsis or y is Ellipsis:
                    e = self.py_equal(x, y) if not (isinstance(x, slice) and isinstance(y, slice)) else slice_equal(x, y)
                else:
                    e = self.truthy(ctx, self.compare(ctx, 'Eq', y, x))
                r = S.or_(r, e)
            return r
        if isinstance(container, str) and isinstance(x, str):
            return x in container
        raise Unsupported('in on %r' % type(container).__name__)

    def truthy(self, ctx, v):
        if v is None:
            return False
        if isinstance(v, (bool,)):
            return v
        if S.is_z3(v) or isinstance(v, (int, Fraction, S.Cx)):
            return S.truth(v)
        if isinstance(v, (str,)):
            return len(v) > 0
        if isinstance(v, Str):
            raise Unsupported('truth of formatted string')
        if isinstance(v, (tuple, frozenset)):
            return len(v) > 0
        if isinstance(v, PyList):
            return len(v.items) > 0
        if isinstance(v, PyDict):
            return len(v.d) > 0
        if isinstance(v, Seq):
            return S.gt(v.length, 0)
        if isinstance(v, Arr):
            n = v.size()
            if isinstance(n, int) and n == 1:
                return S.truth(v.at(tuple(0 for _ in v.shape)))
            if ctx.known(S.eq(n, 1)):
                return S.truth(v.at(tuple(0 for _ in v.shape)))
            if isinstance(n, int) and n == 0:
                return False
            raise Raised('ValueError', 'truth value of an array')
        if isinstance(v, (Obj, FuncInfo, ClassInfo, ModuleRef, Builtin, S.Inf)):
            return True
        raise Unsupported('truth of %r' % (v,))

    def ex_Call(self, ctx, node, fr):
        # super().__init__(...) / super().method(...)
        if isinstance(node.func, ast.Attribute) and isinstance(node.func.value, ast.Call) \
                and isinstance(node.func.value.func, ast.Name) and node.func.value.func.id == 'super':
            return self.super_call(ctx, node, fr)
        f = self.eval(ctx, node.func, fr)
        args = []
        for a in node.args:
            if isinstance(a, ast.Starred):
                args.extend(self.iterate(ctx, self.eval(ctx, a.value, fr)))
            else:
                args.append(self.eval(ctx, a, fr))
        kwargs = {}
        for k in node.keywords:
            if k.arg is None:
                d = self.eval(ctx, k.value, fr)
                if isinstance(d, PyDict):
                    kwargs.update(d.d)
                else:
                    raise Unsupported('** of non-dict')
            else:
                kwargs[k.arg] = self.eval(ctx, k.value, fr)
        return self.call_value(ctx, f, args, kwargs)

    def super_call(self, ctx, node, fr):
        func = fr.func
        if func is None or func.cls is None:
            raise Unsupported('super outside method')
        selfv = fr.env[func.node.args.args[0].arg]
        mro = selfv.cls.mro(self.world.repo) if isinstance(selfv, Obj) else func.cls.mro(self.world.repo)
        i = mro.index(func.cls)
        name = node.func.attr
        target = None
        for c in mro[i + 1:]:
            if name in c.methods:
                target = c.methods[name]
                break
        if target is None:
            if name == '__init__':
                return None
            raise Raised('AttributeError', 'super().%s' % name)
        args = [self.eval(ctx, a, fr) for a in node.args]
        kwargs = {}
        for k in node.keywords:
            if k.arg is None:
                d = self.eval(ctx, k.value, fr)
                kwargs.update(d.d)
            else:
                kwargs[k.arg] = self.eval(ctx, k.value, fr)
        return self.call_function(ctx, target, [selfv] + args, kwargs)

    def ex_Attribute(self, ctx, node, fr):
        v = self.eval(ctx, node.value, fr)
        return self.getattr(ctx, v, node.attr)

    def getattr(self, ctx, v, name):
        from . import arrops
        if isinstance(v, ModuleRef):
            return self.module_attr(ctx, v, name)
        if isinstance(v, Obj):
            g = v.cls.find(self.world.repo, name, 'getters')
            if g is not None:
                return self.call_function(ctx, g, [v], {})
            if name in v.attrs:
                return v.attrs[name]
            m = v.cls.find(self.world.repo, name)
            if m is not None:
                if m.is_staticmethod:
                    return m
                return BoundMethod(v, m)
            ca = v.cls.find(self.world.repo, name, 'class_attrs')
            if ca is not None:
                return self.eval(ctx, ca, Frame(v.cls.module, {}))
            if name == '__class__':
                return v.cls
            raise Raised('AttributeError', '%s.%s' % (v.cls.name, name))
        if isinstance(v, ClassInfo):
            m = v.find(self.world.repo, name)
            if m is not None:
                if m.is_classmethod:
                    return BoundMethod(v, m)
                return m
            if name == '__name__':
                return v.name
            ca = v.find(self.world.repo, name, 'class_attrs')
            if ca is not None:
                return self.eval(ctx, ca, Frame(v.module, {}))
            raise Raised('AttributeError', '%s.%s' % (v.name, name))
        if isinstance(v, Arr):
            return arrops.arr_attr(ctx, v, name)
        lib = self.world.library
        tname = type_name(v)
        key = 'attr:%s.%s' % (tname, name)
        if key in lib:
            return lib[key].fn(ctx, v)
        key = 'method:%s.%s' % (tname, name)
        if key in lib:
            return BoundMethod(v, lib[key])
        if tname in ('int', 'float', 'bool', 'complex'):
            key = 'method:scalar.%s' % name
            if key in lib:
                return BoundMethod(v, lib[key])
            key = 'attr:scalar.%s' % name
            if key in lib:
                return lib[key].fn(ctx, v)
        raise Unsupported('attribute %s of %s' % (name, tname))

    def setattr(self, ctx, obj, name, value):
        if isinstance(obj, Obj):
            s = obj.cls.find(self.world.repo, name, 'setters')
            if s is not None:
                self.call_function(ctx, s, [obj, value], {})
                return
            g = obj.cls.find(self.world.repo, name, 'getters')
            if g is not None:
                raise Raised('AttributeError', "can't set attribute %s" % name)
            slots = obj.cls.find(self.world.repo, '__slots__', 'class_attrs')
            if slots is not None:
                allowed = [e.value for e in slots.elts]
                if name not in allowed:
                    raise Raised('AttributeError', 'slots: %s' % name)
            obj.attrs[name] = value
            ctx.write_event(obj, 'setattr %s' % name)
            return
        if isinstance(obj, Arr) and name in ('real', 'imag'):
            from . import arrops
            arrops.set_real_imag(ctx, obj, name, value)
            return
        raise Unsupported('setattr on %s' % type_name(obj))

    def ex_Subscript(self, ctx, node, fr):
        v = self.eval(ctx, node.value, fr)
        idx = self.eval_index(ctx, node.slice, fr)
        return self.getitem(ctx, v, idx)

    def eval_index(self, ctx, node, fr):
        if isinstance(node, ast.Slice):
            return slice(self.eval(ctx, node.lower, fr) if node.lower else None,
                         self.eval(ctx, node.upper, fr) if node.upper else None,
                         self.eval(ctx, node.step, fr) if node.step else None)
        if isinstance(node, ast.Tuple):
            return tuple(self.eval_index(ctx, e, fr) for e in node.elts)
        return self.eval(ctx, node, fr)

    def getitem(self, ctx, v, idx):
        from . import arrops
        if isinstance(v, Arr):
            return arrops.getitem(ctx, v, idx)
        if isinstance(v, (tuple, PyList)):
            items = v.items if isinstance(v, PyList) else list(v)
            if isinstance(idx, slice):
                if any(S.is_z3(x) for x in (idx.start, idx.stop, idx.step)):
                    raise Unsupported('symbolic list slice')
                r = items[idx]
                return PyList(r) if isinstance(v, PyList) else tuple(r)
            if isinstance(idx, Arr) and idx.ndim == 0:
                idx = idx.at(())
            if S.is_int(idx):
                if S.is_z3(idx):
                    n = len(items)
                    ok = S.and_(S.ge(idx, -n), S.lt(idx, n))
                    ctx.require('index', ok, exc='IndexError')
                    idx2 = S.ite(S.lt(idx, 0), S.add(idx, n), idx)
                    return select_any(items, idx2)
                try:
                    return items[idx]
                except IndexError:
                    raise Raised('IndexError')
            raise Raised('TypeError', 'list index')
        if isinstance(v, PyDict):
            k = hashable(idx)
            if k not in v.d:
                raise Raised('KeyError', repr(k))
            return v.d[k]
        if isinstance(v, str):
            return v[idx]
        if isinstance(v, Seq):
            idx = idx.at(()) if isinstance(idx, Arr) and idx.ndim == 0 else idx
            n = v.length
            ctx.require('index', S.and_(S.ge(idx, S.neg(n)), S.lt(idx, n)), exc='IndexError')
            return v.elem(S.ite(S.lt(idx, 0), S.add(idx, n), idx))
        key = 'getitem:' + type_name(v)
        if key in self.world.library:
            return self.world.library[key].fn(ctx, v, idx)
        raise Unsupported('subscript of %s' % type_name(v))

    def setitem(self, ctx, base, idx, v):
        from . import arrops
        if isinstance(base, Arr):
            return arrops.setitem(ctx, base, idx, v)
        if isinstance(base, PyList):
            if S.is_z3(idx):
                raise Unsupported('symbolic list store')
            base.items[idx] = v
            ctx.write_event(base, 'setitem')
            return
        if isinstance(base, PyDict):
            base.d[hashable(idx)] = v
            ctx.write_event(base, 'setitem')
            return
        raise Unsupported('setitem on %s' % type_name(base))

    def ex_ListComp(self, ctx, node, fr):
        out = []
        self._comp(ctx, node.generators, 0, node.elt, fr, out)
        return PyList(out)

    def ex_GeneratorExp(self, ctx, node, fr):
        out = []
        self._comp(ctx, node.generators, 0, node.elt, fr, out)
        return tuple(out)

    def _comp(self, ctx, gens, i, elt, fr, out):
        if i == len(gens):
            out.append(self.eval(ctx, elt, fr))
            return
        g = gens[i]
        it = self.eval(ctx, g.iter, fr)
        for x in self.iterate(ctx, it):
            sub = Frame(fr.module, dict(fr.env), fr.func)
            self.assign(ctx, g.target, x, sub)
            ok = True
            for c in g.ifs:
                if not ctx.branch(self.truthy(ctx, self.eval(ctx, c, sub))):
                    ok = False
                    break
            if ok:
                self._comp(ctx, gens, i + 1, elt, sub, out)

    def ex_Starred(self, ctx, node, fr):
        raise Unsupported('starred')

    # =================================================================================
    def iterate(self, ctx, v):
        """Concrete-length iteration."""
        from . import arrops
        if isinstance(v, tuple):
            return list(v)
        if isinstance(v, PyList):
            return list(v.items)
        if isinstance(v, (list,)):
            return list(v)
        if isinstance(v, range):
            return list(v)
        if isinstance(v, str):
            return list(v)
        if isinstance(v, frozenset):
            return sorted(v, key=repr)
        if isinstance(v, PyDict):
            return list(v.d.keys())
        if isinstance(v, DictKeys):
            return list(v.d.d.keys())
        if isinstance(v, Arr):
            if v.ndim == 0:
                raise Raised('TypeError', 'iteration over a 0-d array')
            n = v.shape[0]
            if S.is_z3(n):
                raise Unsupported('iteration over array of symbolic length')
            return [arrops.getitem(ctx, v, i) for i in range(n)]
        if isinstance(v, IterList):
            return list(v.items)
        raise Unsupported('iterate over %s' % type_name(v))


class IterList:
    """Result of enumerate/zip/combinations over concrete sequences."""

    def __init__(self, items):
        self.items = list(items)


class DictKeys:
    def __init__(self, d):
        self.d = d


class ExcValue:
    def __init__(self, exc):
        self.exc = exc


class Frame:
    def __init__(self, module, env, func=None):
        self.module = module
        self.env = env
        self.func = func


_EXC_PARENTS = {
    'FloatingPointError': ['ArithmeticError', 'Exception'],
    'ZeroDivisionError': ['ArithmeticError', 'Exception'],
    'IndexError': ['LookupError', 'Exception'],
    'KeyError': ['LookupError', 'Exception'],
    'NotImplementedError': ['RuntimeError', 'Exception'],
}


def exc_matches(exc, names):
    if exc in names or 'Exception' in names or 'BaseException' in names:
        return True
    return any(p in names for p in _EXC_PARENTS.get(exc, []))


def hashable(x):
    if isinstance(x, Obj):
        # objects with __hash__/__eq__ defined through a key attribute (PType)
        if '_key' in x.attrs:
            return ('obj', x.cls.name, x.attrs['_key'])
        return x
    if isinstance(x, PyList):
        raise Raised('TypeError', 'unhashable list')
    return x


def slice_equal(a, b):
    return (a.start, a.stop, a.step) == (b.start, b.stop, b.step)


def select_any(items, i):
    """items[i] with symbolic i for arbitrary (scalar) items."""
    return select(items, i)


def type_name(v):
    if type(v).__name__ == 'PyGenerator':
        return 'PyGenerator'
    if isinstance(v, Seq):
        return 'Seq'
    if v is None:
        return 'NoneType'
    if isinstance(v, bool) or (S.is_z3(v) and z3.is_bool(v)):
        return 'bool'
    if S.is_int(v):
        return 'int'
    if S.is_real(v):
        return 'float'
    if isinstance(v, S.Cx):
        return 'complex'
    if isinstance(v, S.SumT):
        return 'float'
    if isinstance(v, (str, Str)):
        return 'str'
    if isinstance(v, tuple):
        return 'tuple'
    if isinstance(v, PyList):
        return 'list'
    if isinstance(v, PyDict):
        return 'dict'
    if isinstance(v, Arr):
        return 'ndarray'
    if isinstance(v, slice):
        return 'slice'
    if isinstance(v, Obj):
        return v.cls.name
    return type(v).__name__
