"""Contracts, path exploration, obligation generation and discharge."""
import time
import traceback

import z3

from . import sym as S
from .sym import Unsupported
from .values import Arr, Obj, PyList, PyDict, Seq, Str
from .interp import Ctx, Raised, Infeasible, PathEnd, Obligation


class Contract:
    """Side-car contract of one repository function (see DESIGN 3.4)."""

    def __init__(self, qualname):
        self.qualname = qualname
        self.params = None      # ctx -> env (symbolic, well-typed arguments)
        self.pre = None         # ctx, env -> formula
        self.model = None       # ctx, env -> value   (functional spec; may raise Raised)
        self.posts = []         # (clause name, fn(ctx, env0, env, outcome))
        self.loops = {}
        self.modifies = set()   # parameter names whose heap objects may be written
        self.raises = {}        # exc -> fn(ctx, env) formula: exactly when it is raised
        self.level = 'P'
        self.no_model = set()   # callees that must be executed by body while verifying this one
        self.compare = None
        self.call_model = None  # abstraction used at call sites instead of `model` (havoc + assume post)
        self.witnesses = {}     # name -> fn(ctx, env0) formula: witness predicates of known findings
        self.note = ''

    # decorator helpers ------------------------------------------------------------
    def post(self, name):
        def deco(fn):
            self.posts.append((name, fn))
            return fn
        return deco


class Outcome:
    def __init__(self, kind, value=None, exc=None):
        self.kind = kind        # 'return' | 'raise'
        self.value = value
        self.exc = exc


class PathResult:
    def __init__(self):
        self.obligations = []
        self.trace = None
        self.status = 'ok'      # ok | unsupported | crash
        self.detail = None
        self.assumptions = set()
        self.inlined = set()
        self.modelled = set()
        self.outcome = None


def explore(world, runner, max_paths=4000):
    """Run `runner(ctx)` on every feasible path (in a thread with a large stack: lazily composed array
    closures nest deeply).  Returns list of PathResult."""
    import sys
    import threading
    box = {}

    def target():
        try:
            box['r'] = _explore(world, runner, max_paths)
        except BaseException as e:      # re-raised in the caller
            box['e'] = e
    sys.setrecursionlimit(200000)
    threading.stack_size(1024 * 1024 * 1024)
    t = threading.Thread(target=target)
    t.start()
    t.join()
    if 'e' in box:
        raise box['e']
    return box['r']


def _explore(world, runner, max_paths=4000):
    work = [[]]
    results = []
    while work:
        prefix = work.pop()
        ctx = Ctx(world, prefix)
        pr = PathResult()
        try:
            runner(ctx)
        except Infeasible:
            pr.status = 'infeasible'
        except PathEnd:
            pass
        except Unsupported as e:
            pr.status = 'unsupported'
            pr.detail = str(e)
        except RecursionError as e:
            pr.status = 'unsupported'
            pr.detail = 'recursion depth'
        except (TypeError, AttributeError, KeyError, IndexError, AssertionError, ValueError, NotImplementedError, z3.Z3Exception) as e:
            # the engine (or a contract's spec code) met a value it has no rule for: the path is undecided,
            # never a verdict; on the unchanged tree this shows up as exit 2
            import traceback as _tb
            last = _tb.extract_tb(e.__traceback__)[-1]
            pr.status = 'unsupported'
            pr.detail = 'engine could not interpret this path: %s: %s (%s:%d)' % (type(e).__name__, str(e)[:120], last.filename.split('/')[-1], last.lineno)
        pr.obligations = ctx.obligations
        pr.trace = list(ctx.trace)
        pr.assumptions = ctx.assumptions
        pr.inlined = ctx.inlined
        pr.modelled = ctx.modelled
        pr.pc = list(ctx.pc)
        pr.replay_state = getattr(ctx, 'replay_state', None)
        results.append(pr)
        work.extend(ctx.alts)
        if len(results) > max_paths:
            pr = PathResult()
            pr.status = 'unsupported'
            pr.detail = 'path budget exceeded'
            results.append(pr)
            break
    return results


# ----------------------------------------------------------------------------------------
# structural equality obligations

def with_hyp(ctx, hyps, fn):
    n = len(ctx.pc)
    for h in hyps:
        if isinstance(h, bool):
            if not h:
                return
            continue
        ctx.pc.append(h)
    try:
        fn()
    finally:
        del ctx.pc[n:]
        ctx._solver = None
        ctx.cache_known = {}


def oblige_equal(ctx, name, a, b, kind='ensures'):
    """Emit obligations stating that values a and b are equal (arrays: at a skolem index)."""
    if isinstance(a, Arr) and a.ndim == 0 and S.is_scalar(b):
        a = a.at(())
    if isinstance(b, Arr) and b.ndim == 0 and S.is_scalar(a):
        b = b.at(())
    if a is None or b is None or a is Ellipsis or b is Ellipsis or isinstance(a, str) or isinstance(b, str):
        ok = (a is b) or (isinstance(a, str) and isinstance(b, str) and a == b)
        ctx.oblige(name, ok, kind)
        return
    if isinstance(a, bool) and isinstance(b, bool):
        ctx.oblige(name, a == b, kind)
        return
    if isinstance(a, (S.SumT,)) or isinstance(b, S.SumT):
        sum_zero(ctx, name, S.sub(a, b), kind)
        return
    if S.is_scalar(a) and S.is_scalar(b):
        if (isinstance(a, S.Cx) or isinstance(b, S.Cx) or S.is_real(S.num(a)) or S.is_real(S.num(b))) \
                and not (S.is_bool(a) or S.is_bool(b)) and S.TOL is None:
            oblige_scalar_zero(ctx, name, S.sub(a, b), kind)
        else:
            ctx.oblige(name, S.eq(a, b), kind)
        return
    if isinstance(a, Seq) or isinstance(b, Seq):
        def as_seq(v):
            if isinstance(v, Seq):
                return v
            items = list(v.items) if isinstance(v, PyList) else list(v)
            from .values import select
            return Seq(len(items), lambda i, items=items: select(items, i) if items else 0)
        sa, sb = as_seq(a), as_seq(b)
        ctx.oblige(name + '.len', S.eq(sa.length, sb.length), kind)
        i = ctx.fresh_int('%s.i' % name.split('::')[-1])
        with_hyp(ctx, [S.z(S.eq(sa.length, sb.length)), i >= 0, S.z(S.lt(i, sa.length))],
                 lambda: oblige_equal(ctx, name + '.elem', sa.elem(i), sb.elem(i), kind))
        return
    if isinstance(a, (tuple, PyList)) and isinstance(b, (tuple, PyList)):
        xs = a.items if isinstance(a, PyList) else list(a)
        ys = b.items if isinstance(b, PyList) else list(b)
        if len(xs) != len(ys):
            ctx.oblige(name + '.len', False, kind, info={'lens': (len(xs), len(ys))})
            return
        if isinstance(a, PyList) != isinstance(b, PyList):
            ctx.oblige(name + '.type', False, kind)
            return
        for i, (x, y) in enumerate(zip(xs, ys)):
            oblige_equal(ctx, '%s[%d]' % (name, i), x, y, kind)
        return
    if isinstance(a, slice) and isinstance(b, slice):
        for f in ('start', 'stop', 'step'):
            x, y = getattr(a, f), getattr(b, f)
            if x is None or y is None:
                ctx.oblige('%s.%s' % (name, f), x is y, kind)
            else:
                oblige_equal(ctx, '%s.%s' % (name, f), x, y, kind)
        return
    if isinstance(a, Arr) and isinstance(b, Arr):
        if a.ndim != b.ndim:
            ctx.oblige(name + '.ndim', False, kind, info={'ndim': (a.ndim, b.ndim)})
            return
        if a.dtype != b.dtype and {a.dtype, b.dtype} != {'int', 'float'}:      # A3: int-valued floats
            ctx.oblige(name + '.dtype', False, kind, info={'dtype': (a.dtype, b.dtype)})
        shape_ok = True
        for k, (x, y) in enumerate(zip(a.shape, b.shape)):
            e = S.eq(x, y)
            ctx.oblige('%s.shape[%d]' % (name, k), e, kind)
            shape_ok = S.and_(shape_ok, e)
        idx = [ctx.fresh_int('%s.i%d' % (name.split('::')[-1], k)) for k in range(a.ndim)]
        hyps = [shape_ok]
        for i, d in zip(idx, a.shape):
            hyps.append(i >= 0)
            hyps.append(S.z(S.lt(i, d)))
        with_hyp(ctx, hyps, lambda: oblige_equal(ctx, name + '.elem', a.at(tuple(idx)), b.at(tuple(idx)), kind))
        return
    if isinstance(a, Obj) and isinstance(b, Obj):
        if a.cls is not b.cls:
            ctx.oblige(name + '.class', False, kind)
            return
        keys = sorted(set(a.attrs) | set(b.attrs))
        for k in keys:
            if k not in a.attrs or k not in b.attrs:
                ctx.oblige('%s.%s' % (name, k), False, kind)
            else:
                oblige_equal(ctx, '%s.%s' % (name, k), a.attrs[k], b.attrs[k], kind)
        return
    if isinstance(a, PyDict) and isinstance(b, PyDict):
        if set(a.d) != set(b.d):
            ctx.oblige(name + '.keys', False, kind)
            return
        for k in a.d:
            oblige_equal(ctx, '%s[%r]' % (name, k), a.d[k], b.d[k], kind)
        return
    if isinstance(a, Str) and isinstance(b, Str):
        return
    if a is b:
        return
    ctx.oblige(name + '.kind', False, kind, info={'types': (type(a).__name__, type(b).__name__)})


def value_of(ctx, t):
    """The integer value of t if the path condition forces a unique one, else None."""
    t = S.num(t)
    if not S.is_z3(t):
        return t
    s = ctx.solver()
    if s.check() != z3.sat:
        return None
    v = s.model().eval(t, model_completion=True)
    if not z3.is_int_value(v):
        return None
    v = v.as_long()
    return v if ctx.known(t == v) else None


def expand_sums(ctx, d, budget=20000):
    """Write out every finite sum of d whose bounds are forced to concrete values (None if not all)."""
    work = [d]
    total = 0
    count = [0]

    def rec(x):
        if not isinstance(x, S.SumT):
            return x
        acc = x.rest if not isinstance(x.rest, S.SumT) else rec(x.rest)
        for (c, lo, hi, body) in x.terms:
            lo_v, hi_v = value_of(ctx, lo), value_of(ctx, hi)
            if lo_v is None or hi_v is None:
                raise KeyError('symbolic bound')
            for k in range(lo_v, hi_v):
                count[0] += 1
                if count[0] > budget:
                    raise KeyError('too many terms')
                acc = S.add(acc, S.mul(rec(body(k)), c))
        return acc
    try:
        return rec(d)
    except KeyError:
        return None


_TRIG = ('f_cos', 'f_sin', 'f_exp', 'f_sinc', 'f_sqrt')


def term_equal(ctx, t1, t2, depth=0):
    """Decide t1 == t2 under the path condition, structurally first (products and sums are matched
    factor by factor so that the solver only sees the linear residue), then by the solver."""
    if t1.eq(t2):
        return True
    if depth > 8:
        return False
    if z3.is_app(t1) and z3.is_app(t2) and t1.decl().eq(t2.decl()) and t1.num_args() > 0:
        k = t1.decl().kind()
        c1, c2 = list(t1.children()), list(t2.children())
        if k in (z3.Z3_OP_MUL, z3.Z3_OP_ADD):
            rest2 = list(c2)
            left1 = []
            for x in c1:
                for j, y in enumerate(rest2):
                    if x.eq(y):
                        del rest2[j]
                        break
                else:
                    left1.append(x)
            if not left1 and not rest2:
                return True
            if len(left1) == 1 and len(rest2) == 1:
                return term_equal(ctx, left1[0], rest2[0], depth + 1)
            if left1 and rest2:
                mk = (lambda xs: xs[0] if len(xs) == 1 else (z3.Product(*xs) if k == z3.Z3_OP_MUL else z3.Sum(*xs)))
                return ctx.known(mk(left1) == mk(rest2), 3000)
            return ctx.known(t1 == t2, 3000)
        if len(c1) == len(c2) and k in (z3.Z3_OP_UNINTERPRETED, z3.Z3_OP_TO_REAL, z3.Z3_OP_DIV, z3.Z3_OP_UMINUS):
            if all(term_equal(ctx, x, y, depth + 1) for x, y in zip(c1, c2)):
                return True
    return ctx.known(t1 == t2, 3000)


def canon_trig(ctx, exprs):
    """Rewrite applications of uninterpreted functions (array element functions, cos/sin/exp/sqrt...)
    whose arguments are provably equal under the path condition to one representative, innermost first
    (the solver does not find such equalities inside nonlinear products by itself).
    Sound: every substitution is backed by a decided equality."""
    zs = [x for x in exprs if S.is_z3(x)]
    if not zs:
        return exprs
    for _round in range(3):
        apps = []
        seen = set()

        def walk(e):
            if e.get_id() in seen:
                return
            seen.add(e.get_id())
            if z3.is_app(e):
                for ch in e.children():
                    walk(ch)
                if e.num_args() >= 1 and e.decl().kind() == z3.Z3_OP_UNINTERPRETED:
                    apps.append(e)
        for e in exprs:
            if S.is_z3(e):
                walk(e)
        if len(apps) < 2 or len(apps) > 60:
            return exprs
        reps = {}
        subst = []
        for a in apps:
            key = a.decl().name()
            for r in reps.setdefault(key, []):
                if r.eq(a):
                    break
                if all(term_equal(ctx, x, y) for x, y in zip(a.children(), r.children())):
                    subst.append((a, r))
                    break
            else:
                reps[key].append(a)
        if not subst:
            return exprs
        exprs = [z3.substitute(x, *subst) if S.is_z3(x) else x for x in exprs]
    return exprs


def oblige_scalar_zero(ctx, name, d, kind):
    if isinstance(d, S.Cx):
        re, im = canon_trig(ctx, [S.num(d.re), S.num(d.im)])
        re, im = S._simp(re), S._simp(im)
        ctx.oblige(name, S.and_(S.eq(re, 0), S.eq(im, 0)), kind)
    else:
        x, = canon_trig(ctx, [S.num(d)])
        ctx.oblige(name, S.eq(S._simp(x), 0), kind)


def sum_zero(ctx, name, d, kind='ensures', depth=0):
    """Obligations for d == 0 where d may contain finite sums.

    Rules (DESIGN 3.2): terms with provably equal bounds are grouped and compared body-wise at a
    fresh index (Sigma-extensionality: equal bounds and pointwise equal bodies give equal sums);
    an upper bound that differs by exactly one is peeled into the rest; empty ranges vanish."""
    if not isinstance(d, S.SumT):
        oblige_scalar_zero(ctx, name, d, kind)
        return
    if depth > 6:
        ctx.oblige(name + '.structure', False, kind, info={'structural': True, 'why': 'nesting too deep'})
        return
    if getattr(ctx, 'expand_sums', False):
        # replay mode: every symbol is pinned, so the bounds are concrete and sums are written out
        d2 = expand_sums(ctx, d)
        if d2 is not None:
            return sum_zero(ctx, name, d2, kind, depth + 1)
    terms = []
    rest = d.rest
    for (c, lo, hi, body) in d.terms:
        if ctx.known(S.le(hi, lo)):
            continue
        # a range that the path condition forces to a small concrete size is written out
        lo_v = lo if not S.is_z3(lo) else None
        if lo_v is not None and S.is_z3(hi):
            for size in range(1, 5):
                if ctx.known(S.eq(hi, lo_v + size)):
                    for k in range(lo_v, lo_v + size):
                        rest = S.add(rest, S.mul(body(k), c))
                    break
            else:
                terms.append([c, lo, hi, body])
            continue
        terms.append([c, lo, hi, body])
    if isinstance(rest, S.SumT):
        return sum_zero(ctx, name, S.SumT(terms + rest.terms, rest.rest) if terms else rest, kind, depth + 1)
    groups = []
    for t in terms:
        placed = False
        for g in groups:
            lo, hi = g['lo'], g['hi']
            if not ctx.known(S.eq(t[1], lo)):
                continue
            if ctx.known(S.eq(t[2], hi)):
                g['terms'].append(t)
                placed = True
            elif ctx.known(S.eq(t[2], S.add(hi, 1))) and ctx.known(S.ge(hi, lo)):
                rest = S.add(rest, S.mul(t[3](hi), t[0]))        # peel the last element of t
                g['terms'].append(t)
                placed = True
            elif ctx.known(S.eq(hi, S.add(t[2], 1))) and ctx.known(S.ge(t[2], lo)):
                for u in g['terms']:                              # peel the last element of the group
                    rest = S.add(rest, S.mul(u[3](t[2]), u[0]))
                g['hi'] = t[2]
                g['terms'].append(t)
                placed = True
            if placed:
                break
        if not placed:
            groups.append({'lo': t[1], 'hi': t[2], 'terms': [t]})
    for gi, g in enumerate(groups):
        k = ctx.fresh_int('k')

        def sub(k=k, g=g, gi=gi):
            v = 0
            for (c, lo, hi, body) in g['terms']:
                v = S.add(v, S.mul(body(k), c))
            # a sum that found no partner with the same bounds can only be shown zero term by term: that is a
            # sufficient condition, its failure says the two sides are organised differently (kind 'structure':
            # undecided unless a failing input is confirmed natively), not that they differ
            unpaired = len(g['terms']) == 1 and kind != 'requires'
            sum_zero(ctx, '%s.body%d' % (name, gi), v, 'structure' if unpaired else kind, depth + 1)
        with_hyp(ctx, [S.z(S.ge(k, g['lo'])), S.z(S.lt(k, g['hi']))], sub)
    sum_zero(ctx, name + '.rest' if groups else name, rest, kind, depth + 1)


# ----------------------------------------------------------------------------------------
# verification of one function against its contract

def named_sums(ctx):
    """(symbol, SumT) for every finite sum the code divided by on this path (sym.name_sum)."""
    return list(S.NAMED_SUMS.values())[ctx.named_mark:]


def force(ctx, value, depth=0):
    """Evaluate the (lazy) bodies of a finite-sum value once at fresh indices, so that every sum the code
    divides by inside them has been named before the contract looks for it."""
    if isinstance(value, S.SumT) and depth < 4:
        for (c, lo, hi, body) in value.terms:
            force(ctx, body(ctx.fresh_int('force')), depth + 1)
        force(ctx, value.rest, depth + 1)
    elif isinstance(value, (tuple, list)):
        for x in value:
            force(ctx, x, depth)
    elif isinstance(value, Arr) and depth < 2:
        force(ctx, value.at(tuple(ctx.fresh_int('force') for _ in value.shape)), depth + 1)


def find_named_sum(ctx, spec_sum, budget_ms=3000):
    """The symbol of the finite sum named on this path whose definition is provably `spec_sum`
    (Sigma-extensionality, checked in a scratch context), or None."""
    from .interp import Ctx
    for (v, s) in named_sums(ctx):
        sub = Ctx(ctx.world, [])
        sub.pc = list(ctx.pc)
        sub.soft = set(ctx.soft)
        sub.axioms = list(ctx.axioms)
        sub.counter = ctx.counter
        sub.named_mark = ctx.named_mark
        try:
            sum_zero(sub, 'same', S.sub(s, spec_sum))
        except (S.Unsupported, TypeError):
            continue
        if sub.obligations and all(discharge(o, budget_ms, quick=True).status == 'discharged' for o in sub.obligations):
            return v
    return None


def setup_path(ctx, contract):
    """Symbolic arguments, precondition, deep-copied entry state and the model's expectation."""
    from .nplib import PI_AXIOMS, deepcopy_value
    short = contract.qualname.replace('lentil.', '')
    ctx.verifying = contract.qualname
    ctx.no_model = set(contract.no_model)
    for ax in PI_AXIOMS:
        ctx.assume(ax)
    for k, v in getattr(contract, 'ctx_flags', {}).items():
        setattr(ctx, k, v)
    env = contract.params(ctx)
    if contract.pre is not None:
        ctx.assume(contract.pre(ctx, env))
    # vacuity canary: the precondition must be satisfiable
    if not ctx.sat(z3.BoolVal(True)):
        ctx.oblige(short + '::requires.satisfiable', False, kind='vacuity')
        raise PathEnd()
    env0 = deepcopy_value(ctx, env, {})
    expected = None
    if contract.model is not None:
        env_m = deepcopy_value(ctx, env, {})
        try:
            expected = Outcome('return', contract.model(ctx, env_m))
        except Raised as r:
            expected = Outcome('raise', exc=r.exc)
        expected.env = env_m
    return env, env0, expected


def execute_body(ctx, world, contract, func, env):
    mark_params(env)
    ctx.events_mark = len(ctx.events)
    try:
        if func.cls is not None and func.name == '__init__':
            value = world.interp.call_function(ctx, func, [env[k] for k in param_names(func)], {})
        else:
            value = world.interp.run_body(ctx, func, dict(env))
        out = Outcome('return', value)
    except Raised as r:
        out = Outcome('raise', exc=r.exc)
        out.msg = r.msg
    out.env = env
    out.writes = list(ctx.events)
    return out


def check_outcome(ctx, contract, env0, env, expected, out, frame_writes):
    """Obligations relating the outcome to the contract: model, raises, frame, property clauses."""
    short = contract.qualname.replace('lentil.', '')
    tag = '[%s]' % contract.tag if getattr(contract, 'tag', None) else ''
    if expected is not None:
        if expected.kind != out.kind or (out.kind == 'raise' and expected.exc != out.exc):
            ctx.oblige('%s::outcome%s' % (short, tag), False, info={
                'expected': (expected.kind, expected.exc), 'observed': (out.kind, out.exc)})
        elif out.kind == 'return':
            if contract.compare is not None:
                contract.compare(ctx, short, env, expected.env, out.value, expected.value)
            else:
                oblige_equal(ctx, '%s::spec.result%s' % (short, tag), out.value, expected.value)
                for p in sorted(contract.modifies):
                    oblige_equal(ctx, '%s::spec.final[%s]%s' % (short, p, tag), env[p], expected.env[p])
    else:
        if out.kind == 'raise' and out.exc in getattr(contract, 'may_raise', ()):
            pass        # permitted, not required (depends on abstracted content)
        elif out.kind == 'raise':
            cond = contract.raises.get(out.exc)
            if cond is None:
                ctx.oblige('%s::raises.none[%s]%s' % (short, out.exc, tag), False,
                           info={'exc': out.exc, 'msg': str(getattr(out, 'msg', None))})
            else:
                ctx.oblige('%s::raises.only_if[%s]%s' % (short, out.exc, tag), cond(ctx, env0))
        else:
            for exc, cond in contract.raises.items():
                ctx.oblige('%s::raises.if[%s]%s' % (short, exc, tag), S.not_(cond(ctx, env0)))
    # --- frame ---
    for (origin, desc) in frame_writes:
        if isinstance(origin, str) and origin.startswith('param:'):
            root = origin.split(':', 1)[1].split('.')[0].split('[')[0]
            if root not in contract.modifies:
                ctx.oblige('%s::frame[%s]%s' % (short, origin.split(':', 1)[1], tag), False, kind='frame',
                           info={'write': desc})
        elif isinstance(origin, str) and origin.startswith('global:'):
            ctx.oblige('%s::frame[%s]%s' % (short, origin, tag), False, kind='frame', info={'write': desc})
    # --- property-level clauses ---
    if out.kind == 'raise' and expected is None and out.exc in getattr(contract, 'may_raise', ()):
        pass
    elif out.kind == 'raise' and expected is None and not contract.raises and contract.posts:
        pass    # already reported through ::raises.none
    else:
        for name, fn in contract.posts:
            if out.kind == 'raise' and not getattr(fn, 'on_raise', False):
                continue
            if getattr(fn, 'symbolic_only', False) and getattr(ctx, 'expand_sums', False):
                continue        # identity / aliasing clauses cannot be judged on a decoded native outcome
            r = fn(ctx, env0, env, out)
            if r is not None:
                ctx.oblige('%s::%s%s' % (short, name, tag), r)
    if contract.witnesses:
        wit = {k: f(ctx, env0) for k, f in contract.witnesses.items()}
        for ob in ctx.obligations:
            ob.info.setdefault('witness', wit)


def verify_function(world, contract, max_paths=4000, shard=None):
    """shard=(i, n): only the paths whose decision trace at the end of the body hashes to i mod n are
    checked by this call (the others are explored but skipped), so that n processes share one function."""
    func = world.repo.function(contract.qualname)

    def runner(ctx):
        env, env0, expected = setup_path(ctx, contract)
        ctx.replay_state = (env0, expected)
        out = execute_body(ctx, world, contract, func, env)
        if shard is not None:
            import zlib
            h = zlib.crc32(''.join('T' if t else 'F' for t in ctx.trace).encode()) % shard[1]
            if h != shard[0]:
                del ctx.obligations[:]
                raise PathEnd('other shard')
        writes = [(getattr(t, 'origin', 'fresh'), d) for (t, d) in ctx.events[ctx.events_mark:] if not isinstance(t, str)]
        check_outcome(ctx, contract, env0, env, expected, out, writes)
    return explore(world, runner, max_paths)


def param_names(func):
    a = func.node.args
    return [x.arg for x in a.posonlyargs + a.args]


def mark_params(env):
    """Tag heap objects reachable from parameters with their origin (for frame obligations)."""
    seen = set()

    def rec(v, path):
        if id(v) in seen:
            return
        seen.add(id(v))
        if isinstance(v, Arr):
            if v.cell.origin == 'fresh':
                v.cell.origin = 'param:' + path
                v.cell.writes = []
        elif isinstance(v, PyList):
            v.origin = 'param:' + path
            v.writes = []
            for i, x in enumerate(v.items):
                rec(x, '%s[%d]' % (path, i))
        elif isinstance(v, PyDict):
            v.origin = 'param:' + path
            for k, x in v.d.items():
                rec(x, '%s[%r]' % (path, k))
        elif isinstance(v, Obj):
            v.origin = 'param:' + path
            v.writes = []
            for k, x in v.attrs.items():
                rec(x, '%s.%s' % (path, k))
        elif isinstance(v, tuple):
            for i, x in enumerate(v):
                rec(x, '%s[%d]' % (path, i))
    for k, v in env.items():
        rec(v, k)


# ----------------------------------------------------------------------------------------
# discharge

class Verdict:
    def __init__(self, ob, status, model=None, solver='z3', time_s=0.0, reason=None, z3model=None):
        self.z3model = z3model
        self.ob = ob
        self.status = status        # discharged | failed | undecided
        self.model = model
        self.solver = solver
        self.time_s = time_s
        self.reason = reason


def _small_model(s, m):
    """Prefer a small, well-scaled counter-model (replayable against float tolerance)."""
    consts = [d() for d in m.decls() if d.arity() == 0 and d.range() == z3.IntSort()]
    rconsts = [d() for d in m.decls() if d.arity() == 0 and d.range() == z3.RealSort() and d.name() != 'pi']
    q = z3.RealVal('1/4')
    for B, nice in ((3, True), (6, True), (12, True), (3, False), (6, False), (12, False), (40, False)):
        s.push()
        s.set('timeout', 2000)
        for cst in consts:
            s.add(cst >= -B, cst <= B)
        if nice:
            for cst in rconsts:
                s.add(cst <= B, cst >= -B, z3.Or(cst == 0, cst >= q, cst <= -q))
        try:
            if s.check() == z3.sat:
                m = s.model()
                s.pop()
                break
        except z3.Z3Exception:
            pass
        s.pop()
    return m


SMALL_MODELS = True      # switched off by the runner after a few failures in one work item


_STRATEGIES = [
    ('z3', None, 5000),
    ('z3:elim-term-ite+som', lambda: z3.Then('simplify', 'elim-term-ite', z3.With('simplify', som=True), 'smt'), None),
    ('z3:purify-arith', lambda: z3.Then('simplify', 'purify-arith', 'smt'), None),
    ('z3:som', lambda: z3.Then(z3.With('simplify', som=True, hoist_mul=False), 'smt'), None),
    ('z3', None, None),
]


def discharge(ob, timeout_ms=10000, use_cvc5=False, quick=False):
    """unsat -> discharged; sat -> failed (with a counter-model); otherwise the next strategy is tried
    (different preprocessing exposes different proofs of the nonlinear obligations); all unknown -> undecided."""
    t0 = time.time()
    reason = None
    for name, mk, tmo in (_STRATEGIES[:1] if quick else _STRATEGIES):
        try:
            s = z3.Solver() if mk is None else mk().solver()
            s.set('timeout', min(tmo, timeout_ms) if tmo else timeout_ms)
            for p in ob.pc:
                s.add(p)
            s.add(z3.Not(ob.formula))
            r = s.check()
        except z3.Z3Exception as e:
            reason = str(e)
            continue
        if r == z3.unsat:
            return Verdict(ob, 'discharged', solver=name, time_s=time.time() - t0)
        if r == z3.sat:
            m = s.model()
            if mk is None and not quick and SMALL_MODELS:
                m = _small_model(s, m)
            model = {d.name(): str(m[d]) for d in m.decls() if d.arity() == 0}
            return Verdict(ob, 'failed', model=model, solver=name, time_s=time.time() - t0, z3model=m)
        reason = str(s.reason_unknown())
    return Verdict(ob, 'undecided', solver='z3', time_s=time.time() - t0, reason=reason)


def run_lemma(ctx, lemma, name='lemma'):
    """A client lemma is a function(ctx) that builds symbolic values using the contracts' models
    and records obligations with ctx.oblige / oblige_equal.  An exception of the subject code that the
    lemma does not handle is a failed obligation (the lemma expected the call to succeed)."""
    from .nplib import PI_AXIOMS
    for ax in PI_AXIOMS:
        ctx.assume(ax)
    try:
        lemma(ctx)
    except Raised as r:
        ctx.oblige('%s::unexpected_exception[%s]' % (name, r.exc), False, info={'exc': r.exc, 'msg': str(r.msg)})
