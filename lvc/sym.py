"""Scalar layer: concrete Python numbers and z3 terms behind one set of operators.

Semantics encoded (see DESIGN 3.2):
  * int / numpy integer scalars  -> mathematical integers (z3 Int)      [A1]
  * float                        -> mathematical reals (z3 Real)        [A2]
  * complex                      -> Cx(re, im) pair of reals            [A2]
  * //, % follow Python floor semantics for either sign of the divisor
  * int(x) truncates toward zero, round() is half-to-even, floor/ceil/fix exact
Integer-valued floats (np.floor(m/2.0)) are kept as Int terms [A3].
"""
from fractions import Fraction
import z3

# ----------------------------------------------------------------------------------------
# classification

class Inf:
    """np.inf (only ever compared / stored, never used in arithmetic by verified code)."""
    def __repr__(self):
        return 'inf'
INF = Inf()


def is_z3(x):
    return isinstance(x, z3.ExprRef)


def is_bool(x):
    return isinstance(x, bool) or (is_z3(x) and z3.is_bool(x))


def is_int(x):
    if isinstance(x, bool):
        return False
    return isinstance(x, int) or (is_z3(x) and z3.is_int(x))


def is_real(x):
    return isinstance(x, (Fraction, float)) or (is_z3(x) and z3.is_real(x))


def is_num(x):
    return is_int(x) or is_real(x) or isinstance(x, bool)


def is_scalar(x):
    return is_num(x) or is_bool(x) or isinstance(x, Cx) or isinstance(x, SumT)


def is_concrete(x):
    if isinstance(x, Cx):
        return is_concrete(x.re) and is_concrete(x.im)
    return isinstance(x, (bool, int, Fraction, float))


def frac(x):
    """Exact rational for a Python float literal as written (1e-6 -> 1/10**6)."""
    if isinstance(x, Fraction):
        return x
    if isinstance(x, bool):
        return Fraction(int(x))
    if isinstance(x, int):
        return Fraction(x)
    if isinstance(x, float):
        if x != x or x in (float('inf'), float('-inf')):
            raise ValueError('non-finite float')
        return Fraction(repr(x))
    raise TypeError(x)


def z(x):
    """Lift to a z3 term."""
    if is_z3(x):
        return x
    if isinstance(x, bool):
        return z3.BoolVal(x)
    if isinstance(x, int):
        return z3.IntVal(x)
    if isinstance(x, float):
        x = frac(x)
    if isinstance(x, Fraction):
        if x.denominator == 1:
            return z3.RealVal(x.numerator)
        return z3.RealVal(str(x.numerator) + '/' + str(x.denominator))
    raise TypeError('cannot lift %r' % (x,))


def zreal(x):
    x = num(x)
    if is_z3(x):
        return z3.ToReal(x) if z3.is_int(x) else x
    return z(frac(x))


def num(x):
    """bool -> int, float -> Fraction (concrete), z3 Bool -> Int term."""
    if isinstance(x, bool):
        return int(x)
    if isinstance(x, float):
        f = frac(x)
        return f
    if is_z3(x) and z3.is_bool(x):
        return z3.If(x, z3.IntVal(1), z3.IntVal(0))
    return x


def _simp(x):
    if is_z3(x):
        s = z3.simplify(x)
        if z3.is_int_value(s):
            return s.as_long()
        if z3.is_rational_value(s):
            return Fraction(s.numerator_as_long(), s.denominator_as_long())
        if z3.is_true(s):
            return True
        if z3.is_false(s):
            return False
        return s
    if isinstance(x, Fraction) and x.denominator == 1 and False:
        return x
    return x


def _both_concrete(a, b):
    return not is_z3(a) and not is_z3(b)


def _arith_pair(a, b):
    """Bring a, b to a common z3 sort (Int or Real)."""
    a, b = num(a), num(b)
    ra, rb = is_real(a), is_real(b)
    if ra or rb:
        return zreal(a), zreal(b), True
    return z(a), z(b), False


# ----------------------------------------------------------------------------------------
# complex numbers

class Cx:
    """re + i*im.  `abs_hint`, when set, is a real term known by construction to equal |self|
    (set for z**2, where |z**2| = |z|**2 exactly)."""
    __slots__ = ('re', 'im', 'abs_hint')

    def __init__(self, re, im=0, abs_hint=None):
        self.re = re
        self.im = im
        self.abs_hint = abs_hint

    def __repr__(self):
        return 'Cx(%s, %s)' % (self.re, self.im)


def cx(x):
    if isinstance(x, Cx):
        return x
    if isinstance(x, complex):
        return Cx(frac(x.real), frac(x.imag))
    return Cx(x, 0)


def is_zero(x):
    x = _simp(x)
    return (isinstance(x, (int, Fraction)) and x == 0)


# ----------------------------------------------------------------------------------------
# finite sums  (see DESIGN 3.2 "Finite sums")

class SumT:
    """A real or complex value that is a linear combination of finite sums plus a rest:

        value = rest + sum_j coef_j * Sigma(lo_j <= k < hi_j) body_j(k)

    body_j is a Python closure from an integer term to a scalar (which may again be a SumT).
    Only the operations needed by the verified code are supported: + - with anything,
    * / by sum-free scalars, conj.  Anything else raises Unsupported.
    """
    __slots__ = ('terms', 'rest', 'name')

    def __init__(self, terms, rest=0):
        self.terms = terms      # list of (coef, lo, hi, body)
        self.rest = rest
        self.name = None        # the symbol given to this very sum object when it was used as a divisor

    def __repr__(self):
        return 'SumT(%d terms, rest=%r)' % (len(self.terms), self.rest)


class Unsupported(Exception):
    pass


def sigma(lo, hi, body):
    return SumT([(1, lo, hi, body)], 0)


def _sum_lift(x):
    if isinstance(x, SumT):
        return x
    return SumT([], x)


# ----------------------------------------------------------------------------------------
# arithmetic

def add(a, b):
    if isinstance(a, SumT) or isinstance(b, SumT):
        a, b = _sum_lift(a), _sum_lift(b)
        return SumT(a.terms + b.terms, add(a.rest, b.rest))
    if isinstance(a, Cx) or isinstance(b, Cx):
        a, b = cx(a), cx(b)
        return Cx(add(a.re, b.re), add(a.im, b.im))
    a, b = num(a), num(b)
    if _both_concrete(a, b):
        return a + b
    if is_zero(a):
        return b
    if is_zero(b):
        return a
    x, y, _ = _arith_pair(a, b)
    return _simp(x + y)


def neg(a):
    if isinstance(a, SumT):
        return SumT([(neg(c), lo, hi, body) for (c, lo, hi, body) in a.terms], neg(a.rest))
    if isinstance(a, Cx):
        return Cx(neg(a.re), neg(a.im))
    a = num(a)
    if not is_z3(a):
        return -a
    return _simp(-a)


def sub(a, b):
    return add(a, neg(b))


def mul(a, b):
    if isinstance(a, SumT) or isinstance(b, SumT):
        if isinstance(a, SumT) and isinstance(b, SumT):
            raise Unsupported('product of two finite sums')
        if isinstance(b, SumT):
            a, b = b, a
        return SumT([(mul(c, b), lo, hi, body) for (c, lo, hi, body) in a.terms], mul(a.rest, b))
    if isinstance(a, Cx) or isinstance(b, Cx):
        a, b = cx(a), cx(b)
        return Cx(sub(mul(a.re, b.re), mul(a.im, b.im)), add(mul(a.re, b.im), mul(a.im, b.re)))
    a, b = num(a), num(b)
    if _both_concrete(a, b):
        return a * b
    if is_zero(a) or is_zero(b):
        return 0
    if not is_z3(a) and a == 1:
        return b
    if not is_z3(b) and b == 1:
        return a
    x, y, _ = _arith_pair(a, b)
    return _simp(x * y)


class DivisionByZero(Exception):
    pass


NAMED_SUMS = {}


def name_sum(s):
    """A finite sum used as a divisor is replaced by a fresh real symbol standing for its value (the
    defining equation is kept in NAMED_SUMS but not given to the solver: a sound weakening)."""
    if s.name is not None:
        return s.name           # the same sum object (e.g. captured by an element-wise closure) keeps one name
    v = z3.Real('sigma!%d' % (len(NAMED_SUMS) + 1))
    NAMED_SUMS[v.get_id()] = (v, s)
    s.name = v
    return v


def truediv(a, b):
    """Python / : always real.  The caller is responsible for the b != 0 obligation."""
    if isinstance(b, SumT):
        b = name_sum(b)
    if isinstance(a, SumT):
        return SumT([(truediv(c, b), lo, hi, body) for (c, lo, hi, body) in a.terms], truediv(a.rest, b))
    if isinstance(b, Cx):
        # a / (c+di) = a*(c-di)/(c^2+d^2)
        den = add(mul(b.re, b.re), mul(b.im, b.im))
        n = mul(cx(a), Cx(b.re, neg(b.im)))
        return Cx(truediv(n.re, den), truediv(n.im, den))
    if isinstance(a, Cx):
        return Cx(truediv(a.re, b), truediv(a.im, b))
    a, b = num(a), num(b)
    if _both_concrete(a, b):
        if b == 0:
            raise DivisionByZero()
        return frac(a) / frac(b)
    if is_zero(a):
        return Fraction(0)
    r = _simp(zreal(a) / zreal(b))
    if isinstance(b, Fraction) and b.denominator == 1:
        b = b.numerator
    if is_z3(r) and is_int(a) and isinstance(b, int) and b > 0:
        _INT_QUOT[r.get_id()] = (r, a, b)      # floor(a / b) == a // b for integers (np.floor(m/2.0))
    return r


_INT_QUOT = {}


def floordiv(a, b):
    a, b = num(a), num(b)
    if _both_concrete(a, b):
        if b == 0:
            raise DivisionByZero()
        r = a // b
        return r
    if is_real(a) or is_real(b):
        return floor_(truediv(a, b))
    x, y = z(a), z(b)
    if not is_z3(b):
        if b > 0:
            return _simp(x / y)
        return _simp((-x) / z(-b))
    return _simp(z3.If(y > 0, x / y, (-x) / (-y)))


def mod(a, b):
    a, b = num(a), num(b)
    if _both_concrete(a, b):
        if b == 0:
            raise DivisionByZero()
        return a % b
    return sub(a, mul(b, floordiv(a, b)))


def pow_(a, n):
    """a ** n for a concrete integer n (or a concrete rational base and exponent)."""
    n = num(n)
    if is_z3(n):
        raise Unsupported('symbolic exponent')
    if isinstance(n, Fraction) and n.denominator == 1:
        n = n.numerator
    if isinstance(n, Fraction):
        if n == Fraction(1, 2):
            raise Unsupported('use sqrt')
        raise Unsupported('fractional exponent')
    if n < 0:
        return truediv(1, pow_(a, -n))
    if n == 0:
        return 1
    r = a
    for _ in range(n - 1):
        r = mul(r, a)
    if isinstance(a, Cx) and n == 2:
        r.abs_hint = cabs2(a)
    return r


# ----------------------------------------------------------------------------------------
# comparisons and logic

def _cmp(a, b, op):
    if isinstance(a, str) and isinstance(b, str):
        return {'<': a < b, '<=': a <= b, '>': a > b, '>=': a >= b, '==': a == b, '!=': a != b}[op]
    a, b = num(a), num(b)
    if isinstance(a, Inf) or isinstance(b, Inf):
        raise Unsupported('comparison with inf')
    if _both_concrete(a, b):
        return {'<': a < b, '<=': a <= b, '>': a > b, '>=': a >= b, '==': a == b, '!=': a != b}[op]
    x, y, _ = _arith_pair(a, b)
    r = {'<': x < y, '<=': x <= y, '>': x > y, '>=': x >= y, '==': x == y, '!=': x != y}[op]
    return _simp(r)


def lt(a, b): return _cmp(a, b, '<')
def le(a, b): return _cmp(a, b, '<=')
def gt(a, b): return _cmp(a, b, '>')
def ge(a, b): return _cmp(a, b, '>=')


TOL = None      # set during replay: reals coming from native float runs are compared with tolerance


def eq(a, b):
    if TOL is not None and not isinstance(a, (Cx, SumT)) and not isinstance(b, (Cx, SumT)) \
            and not (is_bool(a) or is_bool(b)) and (is_real(num(a)) or is_real(num(b))):
        d = sub(a, b)
        scale = add(1, add(abs_(a), abs_(b)))
        return and_(le(d, mul(TOL, scale)), ge(d, neg(mul(TOL, scale))))
    if isinstance(a, Cx) or isinstance(b, Cx):
        a, b = cx(a), cx(b)
        return and_(eq(a.re, b.re), eq(a.im, b.im))
    if is_bool(a) and is_bool(b):
        if _both_concrete(a, b):
            return a == b
        return _simp(z(a) == z(b))
    return _cmp(a, b, '==')


def ne(a, b):
    return not_(eq(a, b))


def truth(x):
    """Python truthiness of a scalar."""
    if is_bool(x):
        return x
    if isinstance(x, Cx):
        return or_(ne(x.re, 0), ne(x.im, 0))
    return ne(x, 0)


def and_(*xs):
    out = []
    for x in xs:
        if isinstance(x, bool):
            if not x:
                return False
            continue
        out.append(x)
    if not out:
        return True
    if len(out) == 1:
        return out[0]
    return _simp(z3.And(*out))


def or_(*xs):
    out = []
    for x in xs:
        if isinstance(x, bool):
            if x:
                return True
            continue
        out.append(x)
    if not out:
        return False
    if len(out) == 1:
        return out[0]
    return _simp(z3.Or(*out))


def not_(x):
    if isinstance(x, bool):
        return not x
    return _simp(z3.Not(x))


def implies(a, b):
    return or_(not_(a), b)


def ite(c, a, b):
    if isinstance(c, bool):
        return a if c else b
    if isinstance(a, SumT) or isinstance(b, SumT):
        raise Unsupported('ite over finite sums')
    if isinstance(a, Cx) or isinstance(b, Cx):
        a, b = cx(a), cx(b)
        return Cx(ite(c, a.re, b.re), ite(c, a.im, b.im))
    if is_bool(a) and is_bool(b):
        return _simp(z3.If(c, z(a), z(b)))
    a, b = num(a), num(b)
    if _both_concrete(a, b) and a == b and type(a) == type(b):
        return a
    x, y, _ = _arith_pair(a, b)
    if x.eq(y):
        return _simp(x)
    return _simp(z3.If(c, x, y))


def max_(a, b):
    a, b = num(a), num(b)
    if _both_concrete(a, b):
        return max(a, b)
    return ite(ge(a, b), a, b)


def min_(a, b):
    a, b = num(a), num(b)
    if _both_concrete(a, b):
        return min(a, b)
    return ite(le(a, b), a, b)


def abs_(a):
    if isinstance(a, Cx):
        raise Unsupported('abs of complex: use cabs2/sqrt')
    a = num(a)
    if not is_z3(a):
        return abs(a)
    return ite(ge(a, 0), a, neg(a))


# ----------------------------------------------------------------------------------------
# rounding

def floor_(x):
    x = num(x)
    if is_int(x):
        return x
    if not is_z3(x):
        return x.__floor__()
    hit = _INT_QUOT.get(x.get_id())
    if hit is not None and hit[0].eq(x):
        return floordiv(hit[1], hit[2])
    return _simp(z3.ToInt(x))


def ceil_(x):
    x = num(x)
    if is_int(x):
        return x
    if not is_z3(x):
        return x.__ceil__()
    return _simp(-z3.ToInt(-x))


def fix_(x):
    """Round toward zero (np.fix, int())."""
    x = num(x)
    if is_int(x):
        return x
    if not is_z3(x):
        return int(x)
    return ite(ge(x, 0), floor_(x), ceil_(x))


def round_(x):
    """Round half to even (np.round, round())."""
    x = num(x)
    if is_int(x):
        return x
    if not is_z3(x):
        return round(x)
    f = z3.ToInt(x)
    d = x - z3.ToReal(f)
    half = z3.RealVal('1/2')
    return _simp(z3.If(d < half, f, z3.If(d > half, f + 1, z3.If(f % 2 == 0, f, f + 1))))


def to_real(x):
    x = num(x)
    if is_real(x):
        return x
    if is_z3(x):
        return z3.ToReal(x)
    return Fraction(x)


def cabs2(a):
    a = cx(a)
    return add(mul(a.re, a.re), mul(a.im, a.im))


def conj(a):
    if isinstance(a, SumT):
        return SumT([(conj(c), lo, hi, (lambda body: (lambda k: conj(body(k))))(body))
                     for (c, lo, hi, body) in a.terms], conj(a.rest))
    if isinstance(a, Cx):
        return Cx(a.re, neg(a.im))
    return a
