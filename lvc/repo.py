"""Intake: parse the real sources under /repo/lentil on every run (no copy, no model file).

What is dropped: docstrings, comments, the text of exception / warning messages (f-strings are
evaluated to an opaque string), __repr__/__str__ bodies.  Everything else is interpreted from the AST.
"""
import ast
import hashlib
import os

REPO = os.environ.get('LVC_REPO', '/repo')


class FuncInfo:
    def __init__(self, module, node, cls=None):
        self.module = module
        self.node = node
        self.cls = cls
        self.name = node.name
        self.qualname = module.name + '.' + (cls.name + '.' if cls else '') + node.name
        self.decorators = [ast.unparse(d) for d in node.decorator_list]

    @property
    def is_property(self):
        return 'property' in self.decorators

    @property
    def is_setter(self):
        return any(d.endswith('.setter') for d in self.decorators)

    @property
    def is_classmethod(self):
        return 'classmethod' in self.decorators

    @property
    def is_staticmethod(self):
        return 'staticmethod' in self.decorators

    def __repr__(self):
        return '<func %s>' % self.qualname


class ClassInfo:
    def __init__(self, module, node):
        self.module = module
        self.node = node
        self.name = node.name
        self.qualname = module.name + '.' + node.name
        self.bases = [ast.unparse(b) for b in node.bases]
        self.methods = {}
        self.getters = {}
        self.setters = {}
        self.class_attrs = {}
        for st in node.body:
            if isinstance(st, ast.FunctionDef):
                fi = FuncInfo(module, st, self)
                if fi.is_setter:
                    self.setters[st.name] = fi
                elif fi.is_property:
                    self.getters[st.name] = fi
                else:
                    self.methods[st.name] = fi
            elif isinstance(st, ast.Assign) and len(st.targets) == 1 and isinstance(st.targets[0], ast.Name):
                self.class_attrs[st.targets[0].id] = st.value

    def mro(self, repo):
        out = [self]
        for b in self.bases:
            bc = repo.resolve_class(self.module, b)
            if bc is not None:
                for c in bc.mro(repo):
                    if c not in out:
                        out.append(c)
        return out

    def find(self, repo, name, table='methods'):
        for c in self.mro(repo):
            t = getattr(c, table)
            if name in t:
                return t[name]
        return None

    def __repr__(self):
        return '<class %s>' % self.qualname


class ModuleInfo:
    def __init__(self, name, path):
        self.name = name
        self.path = path
        src = open(path).read()
        self.sha = hashlib.sha256(src.encode()).hexdigest()[:16]
        self.tree = ast.parse(src)
        self.functions = {}
        self.classes = {}
        self.imports = {}      # alias -> ('module', dotted) | ('from', module, name)
        self.assigns = {}      # name -> ast expression (module level constants)
        for st in self.tree.body:
            if isinstance(st, ast.FunctionDef):
                self.functions[st.name] = FuncInfo(self, st)
            elif isinstance(st, ast.ClassDef):
                self.classes[st.name] = ClassInfo(self, st)
            elif isinstance(st, ast.Import):
                for a in st.names:
                    if a.asname:
                        self.imports[a.asname] = ('module', a.name)
                    else:
                        self.imports[a.name.split('.')[0]] = ('module', a.name.split('.')[0])
            elif isinstance(st, ast.ImportFrom):
                for a in st.names:
                    self.imports[a.asname or a.name] = ('from', st.module, a.name)
            elif isinstance(st, ast.Assign) and len(st.targets) == 1 and isinstance(st.targets[0], ast.Name):
                self.assigns[st.targets[0].id] = st.value


class Repo:
    def __init__(self, root=None):
        self.root = root or REPO
        self.modules = {}

    def module(self, name):
        if name in self.modules:
            return self.modules[name]
        rel = name.replace('.', '/')
        for p in (os.path.join(self.root, rel + '.py'), os.path.join(self.root, rel, '__init__.py')):
            if os.path.exists(p):
                m = ModuleInfo(name, p)
                self.modules[name] = m
                return m
        return None

    def function(self, qualname):
        """'lentil.field.insert' or 'lentil.plane.Plane.multiply'."""
        parts = qualname.split('.')
        for i in range(len(parts) - 1, 0, -1):
            m = self.module('.'.join(parts[:i]))
            if m is None:
                continue
            rest = parts[i:]
            if len(rest) == 1 and rest[0] in m.functions:
                return m.functions[rest[0]]
            if len(rest) == 2 and rest[0] in m.classes:
                c = m.classes[rest[0]]
                for t in (c.methods, c.getters, c.setters):
                    if rest[1] in t:
                        return t[rest[1]]
            if len(rest) == 3 and rest[0] in m.classes and rest[2] in ('setter', 'getter'):
                c = m.classes[rest[0]]
                t = c.setters if rest[2] == 'setter' else c.getters
                if rest[1] in t:
                    return t[rest[1]]
        raise KeyError(qualname)

    def klass(self, qualname):
        parts = qualname.split('.')
        m = self.module('.'.join(parts[:-1]))
        return m.classes[parts[-1]]

    def resolve_class(self, module, expr):
        """Resolve a base-class expression (Name or dotted) seen in `module`."""
        parts = expr.split('.')
        if len(parts) == 1:
            if expr in module.classes:
                return module.classes[expr]
            imp = module.imports.get(expr)
            if imp and imp[0] == 'from':
                m = self.module(imp[1])
                if m and imp[2] in m.classes:
                    return m.classes[imp[2]]
        return None

    def sources(self):
        return {m.name: m.sha for m in self.modules.values()}
