"""Property runner: verifies the functions and client lemmas a property depends on, discharges
the obligations in a process pool, applies the known-findings file, replays counter-models and
writes the evidence file.   Exit codes: 0 held / 1 violation / 2 undecided / 3 checker error."""
import importlib
import z3
import json
import multiprocessing as mp
import os
import sys
import time
import traceback

VERIF = os.path.dirname(os.path.dirname(os.path.abspath(__file__)))
sys.path.insert(0, VERIF)

WORK_ITEM_BUDGET_S = 420

CONTRACT_MODULES = ['extent', 'field', 'util', 'helper', 'fourier', 'propagate', 'wavefront', 'plane',
                    'ptype', 'zernike', 'detector', 'radiometry', 'shape', 'segmented', 'wfe', 'convolvable', 'energy', 'stochastic', 'segment']


def build_world():
    from lvc.repo import Repo
    from lvc.interp import World
    from lvc import nplib, spec
    w = World(Repo())
    nplib.install(w)
    for m in CONTRACT_MODULES:
        if os.path.exists(os.path.join(VERIF, 'contracts', m + '.py')):
            importlib.import_module('contracts.' + m)
    w.contracts = spec.REGISTRY
    return w


def _model_dict(v):
    return v.model or {}


def work_item(args):
    """Runs in a worker process.  kind = 'function' | 'lemma'."""
    kind, prop_id, name, timeout_ms, known = args
    from lvc import prove
    if kind == 'crosscheck':
        out = {'kind': kind, 'name': name, 'obligations': [], 'paths': 0, 'status': 'ok', 'detail': None,
               'assumptions': [], 'inlined': [], 'modelled': [], 'time_s': 0.0, 'sha': {}}
        t0 = time.time()
        try:
            from lvc import crosscheck
            world = build_world()
            out['crosscheck'] = crosscheck.crosscheck_function(world, world.contracts[name], per_path=2, seed=timeout_ms % 997)
        except Exception:
            out['status'] = 'crash'
            out['detail'] = traceback.format_exc()
        out['time_s'] = round(time.time() - t0, 3)
        return out
    out = {'kind': kind, 'name': name, 'obligations': [], 'paths': 0, 'status': 'ok', 'detail': None,
           'assumptions': [], 'inlined': [], 'modelled': [], 'time_s': 0.0, 'sha': {}}
    t0 = time.time()
    try:
        world = build_world()
        if kind == 'function':
            shard = None
            cname = name
            if '@' in name:
                cname, sh = name.split('@')
                shard = tuple(int(x) for x in sh.split('/'))
            c = world.contracts[cname]
            results = prove.verify_function(world, c, shard=shard)
        else:
            mod = importlib.import_module('props.' + prop_id)
            lemma = dict(mod.LEMMAS)[name]
            results = prove.explore(world, lambda ctx: prove.run_lemma(ctx, lemma, name))
        out['paths'] = len(results)
        seen = set()
        vac = []
        for pr in results:
            if pr.status in ('unsupported',):
                out['obligations'].append({'name': '%s::path' % name.replace('lentil.', ''), 'status': 'undecided',
                                           'reason': 'unsupported: %s' % pr.detail, 'kind': 'engine',
                                           'time_s': 0, 'solver': '-'})
            # vacuity guard (see below): remember whether this path's assumptions are contradictory.  A single
            # such path is merely an infeasible branch the explorer could not prune (axioms are kept out of
            # its feasibility queries); paths ending in a literally-False obligation are exempt.
            if pr.obligations and not any(z3.is_false(ob.formula) for ob in pr.obligations):
                sv = z3.Solver()
                sv.set('timeout', 2000)
                for p_ in pr.obligations[-1].pc:
                    sv.add(p_)
                vac.append(sv.check() == z3.unsat)
            out['assumptions'] = sorted(set(out['assumptions']) | set(pr.assumptions))
            out['inlined'] = sorted(set(out['inlined']) | set(pr.inlined))
            out['modelled'] = sorted(set(out['modelled']) | set(pr.modelled))
            for ob in pr.obligations:
                if time.time() - t0 > WORK_ITEM_BUDGET_S:
                    out['obligations'].append({'name': ob.name, 'status': 'undecided', 'solver': '-', 'time_s': 0,
                                               'kind': ob.kind, 'reason': 'work item time budget (%d s) exhausted' % WORK_ITEM_BUDGET_S})
                    continue
                wit = ob.info.get('witness') or {}
                listed = [k for k in wit if _listed(known, ob.name, k)]
                rec = None
                if listed:
                    # known findings: quick attempt on the obligation as it stands; otherwise prove it
                    # on the complement of the listed witness predicates
                    from lvc.interp import Obligation
                    tr = ''.join('T' if t else 'F' for t in pr.trace)
                    v1 = prove.discharge(ob, min(timeout_ms, 1500), quick=True)
                    if v1.status == 'discharged':
                        out['obligations'].append({'name': ob.name, 'status': 'discharged', 'solver': v1.solver,
                                                   'time_s': round(v1.time_s, 4), 'kind': ob.kind, 'trace': tr})
                        continue
                    hyp = [z3.Not(wit[k]) for k in listed]
                    ob2 = Obligation(ob.name, ob.pc + hyp, ob.formula, ob.kind, ob.info)
                    v2 = prove.discharge(ob2, timeout_ms)
                    if v2.status == 'undecided':        # budgets must not flip verdicts on a busy machine
                        v2 = prove.discharge(ob2, timeout_ms * 4)
                    if v2.status == 'undecided' and time.time() - t0 < WORK_ITEM_BUDGET_S / 2:
                        v2 = prove.discharge(ob2, timeout_ms * 12)
                    if v2.status == 'discharged':
                        rec = {'name': ob.name, 'status': 'known', 'solver': v2.solver,
                               'time_s': round(v1.time_s + v2.time_s, 4), 'kind': ob.kind, 'trace': tr, 'witnesses': []}
                        for k in listed:
                            sw = z3.Solver()
                            sw.set('timeout', 2000)
                            for q_ in ob.pc:
                                sw.add(q_)
                            sw.add(wit[k])
                            if sw.check() != z3.unsat:      # the witness can occur on this path
                                rec['witnesses'].append(k)
                        if not rec['witnesses']:
                            rec['status'] = 'discharged'
                        out['obligations'].append(rec)
                        continue
                    v = v2
                    ob = ob2
                else:
                    v = prove.discharge(ob, timeout_ms)
                    if v.status == 'undecided':
                        v = prove.discharge(ob, timeout_ms * 4)
                    if v.status == 'undecided' and time.time() - t0 < WORK_ITEM_BUDGET_S / 2:
                        # last resort on a busy machine: one long attempt while the work item still has time
                        v = prove.discharge(ob, timeout_ms * 12)
                rec = {'name': ob.name, 'status': v.status, 'solver': v.solver, 'time_s': round(v.time_s, 4),
                       'kind': ob.kind, 'trace': ''.join('T' if t else 'F' for t in pr.trace)}
                if v.status == 'failed':
                    rec['model'] = v.model
                    rec['info'] = {k: str(x) for k, x in ob.info.items() if k != 'witness'}
                    nfail = sum(1 for o in out['obligations'] if o['status'] == 'failed')
                    if nfail >= 3:
                        prove.SMALL_MODELS = False
                    if ob.name in seen or nfail >= 6:
                        rec['replay'] = {'status': 'skipped', 'detail': 'same obligation already replayed on another path'}
                    else:
                        seen.add(ob.name)
                        try:
                            from lvc import replay
                            rec['replay'] = replay.try_replay(world, kind, name.split('@')[0], prop_id, ob, v, pr)
                        except Exception as e:
                            rec['replay'] = {'status': 'error', 'detail': '%s: %s' % (type(e).__name__, e)}
                    if ob.kind == 'structure' and (rec.get('replay') or {}).get('status') != 'confirmed':
                        # a clause about HOW the code computes (which library calls it makes, which sum it divides
                        # by).  When it fails without a natively confirmed failing input the proof decomposition no
                        # longer matches the code - an equivalent re-formulation would look the same - so this is
                        # undecided, not a violation (the value clauses and the stand-ins decide).
                        rec['status'] = 'undecided'
                        rec['reason'] = 'proof decomposition does not match the code any more (%s); no failing input confirmed' % ob.name.split('::')[-1]
                elif v.status == 'undecided':
                    rec['reason'] = v.reason
                out['obligations'].append(rec)
        if vac and all(vac):
            # every path that carries obligations has contradictory assumptions: nothing was proved at all
            out['obligations'].append({'name': '%s::vacuity.some_path_has_satisfiable_assumptions' % name.replace('lentil.', ''),
                                       'status': 'undecided', 'kind': 'vacuity', 'time_s': 0, 'solver': 'z3',
                                       'reason': 'the assumptions of every path are contradictory: nothing proved here counts'})
        out['sha'] = world.repo.sources()
    except Exception as e:
        out['status'] = 'crash'
        out['detail'] = traceback.format_exc()
    out['time_s'] = round(time.time() - t0, 3)
    return out


def _listed(known, obname, wit):
    for (o, w) in known:
        if w != wit:
            continue
        import fnmatch
        if o == obname or fnmatch.fnmatchcase(obname, o):
            return True
    return False


def run_bounded(script, tier, seed, timeout=3600):
    """Run a native stand-in under /venv/bin/python with PYTHONPATH=<repo>:<verif>/native."""
    import subprocess
    from lvc.repo import REPO
    env = dict(os.environ)
    env['PYTHONPATH'] = REPO + ':' + os.path.join(VERIF, 'native')
    p = subprocess.run(['/venv/bin/python', '-W', 'ignore', os.path.join(VERIF, 'native', script), tier, str(seed)],
                       capture_output=True, text=True, env=env, timeout=timeout)
    if p.returncode != 0:
        raise RuntimeError('bounded stand-in %s failed:\n%s' % (script, p.stderr[-2000:]))
    out = p.stdout
    return json.loads(out[out.index('['):])


def load_known():
    p = os.path.join(VERIF, 'known_findings.json')
    if not os.path.exists(p):
        return {'findings': [], 'fixed': []}
    return json.load(open(p))


def run_property(prop_id, tier='quick', seed=0, jobs=None):
    t0 = time.time()
    mod = importlib.import_module('props.' + prop_id)
    kf = load_known()
    known = set((f['obligation'], f['witness']) for f in kf['findings']
                if f['property'] == prop_id or prop_id in f.get('also_seen_in', []))
    timeout_ms = 10000 if tier == 'quick' else 30000
    shards = getattr(mod, 'SHARDS', {})
    items = []
    for q in mod.FUNCTIONS:
        n = shards.get(q, 1)
        if n == 1:
            items.append(('function', prop_id, q, timeout_ms, known))
        else:
            items += [('function', prop_id, '%s@%d/%d' % (q, i, n), timeout_ms, known) for i in range(n)]
    items += [('lemma', prop_id, n, timeout_ms, known) for n, _ in getattr(mod, 'LEMMAS', [])]
    if tier == 'thorough':
        items += [('crosscheck', prop_id, q, timeout_ms + int(seed), known) for q in mod.FUNCTIONS if '#' not in q or True
                  if q not in getattr(mod, 'NO_CROSSCHECK', ())]
    jobs = jobs or min(16, max(1, len(items)))
    if jobs > 1:
        with mp.Pool(jobs) as pool:
            results = pool.map(work_item, items, chunksize=1)
    else:
        results = [work_item(i) for i in items]

    obligations, discharged, failed, undecided, crashes = 0, 0, [], [], []
    known_seen = {}
    samples, assumptions, inlined, modelled, sha = [], set(), set(), set(), {}
    lemma_exec = set()
    slow = []
    solver_time = 0.0
    paths = 0
    per_fn = {}
    cross = []
    for r in results:
        if r['status'] == 'crash':
            crashes.append(r)
            continue
        if r['kind'] == 'crosscheck':
            cc = r['crosscheck']
            cross.append({k: v for k, v in cc.items() if k != 'disagree'})
            cross[-1]['disagreements'] = len(cc['disagree'])
            if cc['disagree']:
                crashes.append({'name': 'crosscheck ' + r['name'], 'kind': 'crosscheck',
                                'detail': 'engine/contract disagrees with the real code on sampled inputs; clauses %s; native %s; inputs %s'
                                % (sorted({f['obligation'] for d in cc['disagree'] for f in (d.get('failed') or [])})[:6],
                                   json.dumps({k: v for k, v in (cc['disagree'][0].get('native') or {}).items() if k != 'value'}, default=str)[:300],
                                   json.dumps(cc['disagree'][0].get('inputs'), default=str)[:1500])})
            continue
        paths += r['paths'] if ('@' not in r['name'] or r['name'].split('@')[1].startswith('0/')) else 0
        assumptions |= set(r['assumptions'])
        if r['kind'] == 'lemma':
            lemma_exec |= set(r['inlined'])      # real functions a client lemma executes: the lemma is their contract
        else:
            inlined |= set(r['inlined'])
        modelled |= set(r['modelled'])
        sha.update(r['sha'])
        n_ok = 0
        for ob in r['obligations']:
            obligations += 1
            solver_time += ob.get('time_s', 0) + ob.get('complement_time_s', 0)
            if ob['status'] == 'discharged':
                discharged += 1
                n_ok += 1
            elif ob['status'] == 'known':
                discharged += 1     # the complement of the listed witness was discharged
                n_ok += 1
                for k in ob.get('witnesses', []):
                    known_seen.setdefault((ob['name'], k), 0)
                    known_seen[(ob['name'], k)] += 1
            elif ob['status'] == 'failed':
                failed.append((r['name'], ob))
            else:
                undecided.append((r['name'], ob))
        base = r['name'].split('@')[0]
        if base in per_fn:
            pf = per_fn[base]
            pf['paths'] = max(pf['paths'], r['paths'])
            pf['obligations'] += len(r['obligations'])
            pf['discharged'] += n_ok
            pf['time_s'] = max(pf['time_s'], r['time_s'])
            pf['shards'] = pf.get('shards', 1) + 1
        else:
            per_fn[base] = {'paths': r['paths'], 'obligations': len(r['obligations']), 'discharged': n_ok,
                            'time_s': r['time_s'], 'kind': r['kind']}
        for ob in r['obligations'][:2]:
            samples.append({'obligation': ob['name'], 'status': ob['status'], 'solver': ob['solver'],
                            'time_s': ob['time_s'], 'path': ob.get('trace', '')})
        for ob in r['obligations']:
            if ob.get('time_s', 0) > 1.0:
                slow.append({'obligation': ob['name'], 'status': ob['status'], 'solver': ob['solver'], 'time_s': ob['time_s']})

    # bounded stand-ins (never counted as proved)
    bounded = []
    bviol = []
    if hasattr(mod, 'bounded'):
        try:
            bounded = mod.bounded(tier, seed)
        except Exception:
            crashes.append({'name': 'bounded', 'detail': traceback.format_exc()})
        for b in bounded:
            for wname, info in (b.get('known_by_witness') or {}).items():
                if _listed(known, 'bounded:' + b['name'], wname):
                    known_seen[('bounded:' + b['name'], wname)] = info['cases']
                else:
                    b['violations'] = b.get('violations', 0) + info['cases']
                    b['first_violation'] = b.get('first_violation') or info['first']
            if b.get('violations'):
                bviol.append(b)

    lines = []
    exit_code = 0
    OUT = os.environ.get('LVC_OUT', VERIF)      # evidence/ and replays/ root (scratch runs of tools/ redirect it)
    os.makedirs(os.path.join(OUT, 'replays', prop_id), exist_ok=True)
    for (obname, wit), n in sorted(known_seen.items()):
        what = [f['what'] for f in kf['findings'] if (f['property'] == prop_id or prop_id in f.get('also_seen_in', [])) and f['witness'] == wit
                and _listed({(f['obligation'], wit)}, obname, wit)]
        lines.append('KNOWN-FINDING: property=%s %s [%s] %s' % (prop_id, obname, wit, what[0] if what else ''))
    reported = set()
    for fn, ob in failed:
        key = ob['name']
        if key in reported:
            continue
        reported.add(key)
        path = os.path.join(OUT, 'replays', prop_id, _safe(ob['name']) + '.json')
        rp = ob.get('replay') or {}
        json.dump({'property': prop_id, 'obligation': ob['name'], 'function': fn, 'solver': ob['solver'],
                   'counter_model': ob.get('model'), 'info': ob.get('info'), 'replay': rp,
                   'sources': sha, 'path': ob.get('trace')}, open(path, 'w'), indent=1, default=str)
        if rp.get('status') == 'confirmed':
            lines.append('VIOLATION property=%s replay=%s' % (prop_id, path))
        else:
            lines.append('VIOLATION property=%s replay=%s no-failing-input-found' % (prop_id, path))
        lines.append('  obligation %s failed (%s); counter-model %s' % (
            ob['name'], ob['solver'], json.dumps(ob.get('model'))[:300]))
        exit_code = 1
    for b in bviol:
        path = os.path.join(OUT, 'replays', prop_id, _safe('bounded.' + b['name']) + '.json')
        json.dump({'property': prop_id, 'obligation': 'bounded:' + b['name'], 'replay': b}, open(path, 'w'),
                  indent=1, default=str)
        lines.append('VIOLATION property=%s replay=%s' % (prop_id, path))
        lines.append('  bounded stand-in %s: %s' % (b['name'], str(b.get('first_violation'))[:300]))
        exit_code = 1
    if exit_code == 0 and undecided:
        exit_code = 2
        for fn, ob in undecided[:20]:
            lines.append('UNDECIDED property=%s obligation=%s (%s)' % (prop_id, ob['name'], ob.get('reason')))
    if crashes:
        exit_code = 3 if exit_code != 1 else 1
        for c in crashes:
            lines.append('CHECKER-ERROR property=%s in %s\n%s' % (prop_id, c.get('name'), c.get('detail')))
    if obligations == 0:
        exit_code = max(exit_code, 3)
        lines.append('CHECKER-ERROR property=%s generated zero obligations' % prop_id)

    wall = time.time() - t0
    cmd = 'bin/lv check %s --tier %s' % (prop_id, tier)
    evidence = {
        'property_id': prop_id, 'tier': tier, 'seed': int(seed), 'level': 'proof',
        'coverage': {
            'obligations': obligations, 'discharged': discharged,
            'checker_cmd': cmd,
            'trusted_base': sorted(assumptions) + list(getattr(mod, 'TRUSTED', [])),
            'samples': samples[:40],
            'slowest_obligations': sorted(slow, key=lambda x: -x.get('time_s', 0))[:10],
            'functions_under_contract': per_fn,
            'functions_inlined_without_contract': sorted(inlined),
            'functions_executed_by_client_lemmas': sorted(lemma_exec),
            'callee_contracts_used_at_call_sites': sorted(modelled),
            'paths': paths, 'solver_time_s': round(solver_time, 3),
            'backends': ['z3 %s (python API)' % _z3v()],
            'failed': [ob['name'] for _, ob in failed], 'undecided': [ob['name'] for _, ob in undecided],
            'known_findings_seen': ['%s [%s]' % k for k in sorted(known_seen)],
            'bounded': bounded,
            'engine_vs_cpython_crosscheck': cross,
            'clause_table': getattr(mod, 'CLAUSES', []),
            'source_sha': sha,
            'exhaustive': False,
        },
        'assumptions': list(getattr(mod, 'ASSUMPTIONS', [])) + [
            'A1: numpy integers are mathematical integers (no overflow)',
            'A2: IEEE doubles are treated as mathematical reals / complex pairs of reals',
            'A3: integer-valued floats (np.floor(m/2.0)) are treated as integers',
            'engine: lvc encoding of the Python/NumPy subset (validated by cross-checks, see DESIGN 5)'],
        'wall_s': round(wall, 3),
        'violations': sum(1 for l in lines if l.startswith('VIOLATION')),
    }
    os.makedirs(os.path.join(OUT, 'evidence'), exist_ok=True)
    json.dump(evidence, open(os.path.join(OUT, 'evidence', prop_id + '.json'), 'w'), indent=1, default=str)
    for l in lines:
        print(l)
    print('%s tier=%s functions=%d paths=%d obligations=%d discharged=%d failed=%d undecided=%d known=%d wall=%.1fs exit=%d'
          % (prop_id, tier, len(per_fn), paths, obligations, discharged, len(failed), len(undecided),
             len(known_seen), wall, exit_code))
    return exit_code


def _safe(s):
    return ''.join(ch if ch.isalnum() or ch in '._-' else '_' for ch in s)[:150]


def _z3v():
    import z3
    return z3.get_version_string()


def selfcheck():
    """setup_cmd: nothing to build; verify that the tools the checks need are present."""
    import subprocess
    import z3
    from lvc.repo import Repo
    ok = True
    print('z3', z3.get_version_string())
    r = Repo()
    for m in ('lentil.field', 'lentil.extent', 'lentil.plane'):
        if r.module(m) is None:
            print('cannot read', m)
            ok = False
    p = subprocess.run(['/venv/bin/python', '-W', 'ignore', '-c', 'import numpy, scipy; print("native numpy", numpy.__version__)'],
                       capture_output=True, text=True)
    print(p.stdout.strip())
    ok = ok and p.returncode == 0
    w = build_world()
    print('contracts loaded:', len(w.contracts))
    # every property module must import, name only registered contracts, and have its stand-in present
    n = 0
    for f in sorted(os.listdir(os.path.join(VERIF, 'props'))):
        if not (f.startswith('C') and f.endswith('.py')):
            continue
        mod = importlib.import_module('props.' + f[:-3])
        for q in mod.FUNCTIONS:
            if q not in w.contracts:
                print('props/%s names an unregistered contract %s' % (f, q))
                ok = False
        n += 1
    print('property modules loaded:', n)
    return 0 if ok else 3


def replay_file(path):
    """Re-run the native part of a recorded replay and print the outcome of the real function."""
    from lvc import replay
    from lvc.repo import REPO
    d = json.load(open(path))
    rp = d.get('replay') or {}
    if 'inputs' not in rp:
        print('no concrete inputs recorded in', path, '(%s)' % rp.get('status'))
        print(json.dumps({k: d.get(k) for k in ('obligation', 'counter_model', 'info')}, indent=1)[:3000])
        return 0
    w = build_world()
    func = w.repo.function(rp['function'])
    from lvc.prove import param_names
    nat = replay.run_native(rp['function'], rp['inputs'], param_names(func), REPO)
    print('obligation:', d['obligation'])
    print('native outcome now:', json.dumps({k: nat.get(k) for k in ('kind', 'exc', 'msg', 'value', 'changed')})[:3000])
    print('recorded        :', json.dumps(rp.get('native_outcome'))[:3000])
    print('recorded failing clauses:', json.dumps(rp.get('failed_on_real_code'))[:2000])
    return 0


def main(argv):
    import argparse
    ap = argparse.ArgumentParser()
    sub = ap.add_subparsers(dest='cmd')
    c = sub.add_parser('check')
    c.add_argument('prop')
    c.add_argument('--tier', default=os.environ.get('VERIF_TIER', 'quick'))
    c.add_argument('--jobs', type=int, default=None)
    sub.add_parser('selfcheck')
    r = sub.add_parser('replay')
    r.add_argument('path')
    a = ap.parse_args(argv)
    if a.cmd == 'selfcheck':
        return selfcheck()
    if a.cmd == 'replay':
        return replay_file(a.path)
    if a.cmd == 'check':
        seed = int(os.environ.get('VERIF_SEED', '0'))
        try:
            return run_property(a.prop, a.tier, seed, a.jobs)
        except Exception:
            traceback.print_exc()
            return 3
    ap.print_help()
    return 3


if __name__ == '__main__':
    sys.exit(main(sys.argv[1:]))
